#!/bin/sh
# offline build of the fact extractors (run once after a fresh restore)
set -e
DIR="$(cd "$(dirname "$0")" && pwd)"
export CARGO_NET_OFFLINE=true
for t in srcfacts mirfacts; do
  if [ -f "$DIR/tools/$t/Cargo.toml" ]; then
    (cd "$DIR/tools/$t" && cargo build --release --offline 2>&1 | tail -3)
  fi
done
