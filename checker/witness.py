"""WITNESS: compile-fail doctests (with compiling twins) in tools/witness, run under `cargo +nightly test --doc`."""
import os
import re
import shutil
import subprocess

import facts

W = os.path.join(facts.VERIF, 'tools', 'witness')


def run(ctx, wanted):
    """wanted: {struct name in tools/witness/src/lib.rs: what it shows}. One obligation per witness struct."""
    ctx.rule('WITNESS', 'type-level fact shown by compile_fail doctests (error code enforced) plus a compiling twin')
    try:
        shutil.copy(os.path.join(facts.REPO, 'Cargo.lock'), os.path.join(W, 'Cargo.lock'))
    except OSError:
        pass
    env = dict(os.environ, CARGO_TARGET_DIR=os.path.join(facts.CACHE, 'witness-target'), CARGO_NET_OFFLINE='true')
    r = subprocess.run(['cargo', '+nightly', 'test', '--doc', '--offline'], cwd=W, env=env, stdout=subprocess.PIPE, stderr=subprocess.STDOUT, universal_newlines=True)
    res = {}
    for m in re.finditer(r'^test src/lib\.rs - (\w+) \(line (\d+)\)( - compile fail| - compile)? \.\.\. (\w+)', r.stdout, re.M):
        res.setdefault(m.group(1), []).append((m.group(3) == ' - compile fail', m.group(4)))
    if not res:
        ctx.fail_closed.append(('WITNESS:harness', 'WITNESS', 'UNANALYSABLE: witness doctests did not run: %s' % r.stdout[-600:]))
        return
    for name, what in wanted.items():
        got = res.get(name)
        if not got:
            ctx.fail_closed.append(('WITNESS:%s' % name, 'WITNESS', 'floor failure: witness %s missing from the harness' % name))
            continue
        fails = [g for g in got if g[0]]
        twins = [g for g in got if not g[0]]
        if not fails or not twins:
            ctx.fail_closed.append(('WITNESS:%s' % name, 'WITNESS', 'floor failure: witness %s needs a compile_fail case and a compiling twin' % name))
        elif any(g[1] != 'ok' for g in twins):
            ctx.unanalysable('WITNESS', 'WITNESS:%s' % name, 'the compiling twin no longer compiles (API moved?): the compile_fail case proves nothing')
        elif any(g[1] != 'ok' for g in fails):
            ctx.violation('WITNESS', 'WITNESS:%s' % name, 'type-level guarantee lost: %s (the offending program now compiles)' % what)
        else:
            ctx.ok('WITNESS', len(got), {'witness': name, 'shows': what, 'cases': len(got)})
