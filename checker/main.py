import argparse
import json
import os
import sys

sys.path.insert(0, os.path.dirname(os.path.abspath(__file__)))
sys.setrecursionlimit(20000)


def main():
    ap = argparse.ArgumentParser()
    ap.add_argument('pid')
    ap.add_argument('--tier', default=os.environ.get('VERIF_TIER', 'quick'))
    ap.add_argument('--replay', default=None)
    a = ap.parse_args()
    seed = int(os.environ.get('VERIF_SEED', '0') or 0)
    tier = a.tier if a.tier in ('quick', 'thorough') else 'quick'
    import core
    if a.replay:
        with open(a.replay) as fh:
            rep = json.load(fh)
        print('replaying %s: rule=%s key=%s' % (a.replay, rep.get('rule'), rep.get('key')))
        print(rep.get('message'))
        os.environ['VERIF_ONLY_KEY'] = rep.get('key', '')
    rc = core.run_check(a.pid.upper(), tier, seed)
    sys.exit(rc)


if __name__ == '__main__':
    main()
