"""Fact extraction driver: runs the extractors on /repo's current working tree (cached by content hash)."""
import fcntl
import hashlib
import json
import os
import shutil
import subprocess
import sys
import tempfile
import time

VERIF = os.path.dirname(os.path.dirname(os.path.abspath(__file__)))
REPO = os.environ.get('VERIF_REPO', '/repo')
CACHE = os.path.join(VERIF, '.cache')
SRCFACTS_BIN = os.path.join(VERIF, 'tools', 'srcfacts', 'target', 'release', 'srcfacts')
MIRFACTS_BIN = os.path.join(VERIF, 'tools', 'mirfacts', 'target', 'release', 'mirfacts')


def tree_hash(repo=None):
    repo = repo or REPO
    h = hashlib.sha256()
    paths = []
    for root, dirs, files in os.walk(os.path.join(repo, 'src')):
        dirs.sort()
        for f in sorted(files):
            if f.endswith('.rs'):
                paths.append(os.path.join(root, f))
    for extra in ('Cargo.toml', 'Cargo.lock'):
        p = os.path.join(repo, extra)
        if os.path.exists(p):
            paths.append(p)
    for p in paths:
        h.update(os.path.relpath(p, repo).encode())
        h.update(b'\0')
        with open(p, 'rb') as fh:
            h.update(fh.read())
        h.update(b'\0')
    for b in (SRCFACTS_BIN, MIRFACTS_BIN):
        if os.path.exists(b):
            h.update(str(os.path.getmtime(b)).encode())
    return h.hexdigest()[:24]


def checker_hash():
    """hash of the checker's own sources (rules, evaluator, models, oracles): cached shared-rule results are only reused by the code that produced them"""
    h = hashlib.sha256()
    for base in (os.path.join(VERIF, 'checker'), os.path.join(VERIF, 'oracles')):
        for root, dirs, files in os.walk(base):
            dirs[:] = sorted(d for d in dirs if d != '__pycache__')
            for f in sorted(files):
                if f.endswith('.py'):
                    with open(os.path.join(root, f), 'rb') as fh:
                        h.update(f.encode() + b'\0' + fh.read() + b'\0')
    return h.hexdigest()[:12]


def build_tool(name):
    d = os.path.join(VERIF, 'tools', name)
    env = dict(os.environ, CARGO_NET_OFFLINE='true')
    r = subprocess.run(['cargo', 'build', '--release', '--offline'], cwd=d, env=env, stdout=subprocess.PIPE,
                       stderr=subprocess.STDOUT, universal_newlines=True)
    if r.returncode != 0:
        sys.stderr.write(r.stdout)
        raise RuntimeError('building %s failed' % name)


class Lock(object):
    def __init__(self, path):
        self.path = path

    def __enter__(self):
        os.makedirs(os.path.dirname(self.path), exist_ok=True)
        self.fh = open(self.path, 'w')
        fcntl.flock(self.fh, fcntl.LOCK_EX)
        return self

    def __exit__(self, *a):
        fcntl.flock(self.fh, fcntl.LOCK_UN)
        self.fh.close()


def _prune_cache(keep):
    try:
        ents = [e for e in os.listdir(CACHE) if os.path.isdir(os.path.join(CACHE, e)) and e != keep]
        ents.sort(key=lambda e: os.path.getmtime(os.path.join(CACHE, e)))
        for e in ents[:-60]:      # generous: several trees may be analysed concurrently (seeded-change matrices, negative controls)
            shutil.rmtree(os.path.join(CACHE, e), ignore_errors=True)
    except OSError:
        pass


def src_facts(repo=None):
    """returns (path to src.json, hash)"""
    repo = repo or REPO
    os.makedirs(CACHE, exist_ok=True)
    with Lock(os.path.join(CACHE, 'lock.src')):
        if not os.path.exists(SRCFACTS_BIN):
            build_tool('srcfacts')
        h = tree_hash(repo)
        d = os.path.join(CACHE, h)
        out = os.path.join(d, 'src.json')
        if not os.path.exists(out):
            os.makedirs(d, exist_ok=True)
            tmp = out + '.tmp%d' % os.getpid()
            r = subprocess.run([SRCFACTS_BIN, repo, tmp], stdout=subprocess.PIPE, stderr=subprocess.PIPE,
                               universal_newlines=True)
            if r.returncode != 0 or not os.path.exists(tmp):
                raise RuntimeError('srcfacts failed: %s' % r.stderr)
            os.rename(tmp, out)
            _prune_cache(h)
        return out, h


def mir_facts(repo=None):
    """returns (path to mir.json, hash); runs the rustc_private driver under cargo +nightly check"""
    repo = repo or REPO
    os.makedirs(CACHE, exist_ok=True)
    with Lock(os.path.join(CACHE, 'lock.mir')):
        if not os.path.exists(MIRFACTS_BIN):
            build_tool('mirfacts')
        h = tree_hash(repo)
        d = os.path.join(CACHE, h)
        out = os.path.join(d, 'mir.json')
        if os.path.exists(out):
            return out, h
        os.makedirs(d, exist_ok=True)
        tgt = tempfile.mkdtemp(prefix='verif-mir-tgt-')
        tmp = out + '.tmp%d' % os.getpid()
        try:
            sysroot = subprocess.check_output(['rustc', '+nightly', '--print', 'sysroot'], universal_newlines=True).strip()
            env = dict(os.environ)
            env.update({
                'LD_LIBRARY_PATH': sysroot + '/lib' + (':' + env['LD_LIBRARY_PATH'] if env.get('LD_LIBRARY_PATH') else ''),
                'RUSTFLAGS': '-Zmir-opt-level=0 -Awarnings',
                'RUSTC_WORKSPACE_WRAPPER': MIRFACTS_BIN,
                'CARGO_TARGET_DIR': tgt,
                'CARGO_NET_OFFLINE': 'true',
                'MIRFACTS_OUT': tmp,
            })
            t0 = time.time()
            r = subprocess.run(['cargo', '+nightly', 'check', '--offline', '--lib'], cwd=repo, env=env,
                               stdout=subprocess.PIPE, stderr=subprocess.STDOUT, universal_newlines=True)
            if r.returncode != 0 or not os.path.exists(tmp):
                raise RuntimeError('mirfacts run failed (rc=%s):\n%s' % (r.returncode, r.stdout[-4000:]))
            with open(tmp) as fh:
                j = json.load(fh)
            if j.get('crate') != 'tyme4rs':
                raise RuntimeError('mirfacts: wrong crate %r' % j.get('crate'))
            j['extract_s'] = time.time() - t0
            with open(tmp, 'w') as fh:
                json.dump(j, fh)
            os.rename(tmp, out)
        finally:
            shutil.rmtree(tgt, ignore_errors=True)
            if os.path.exists(tmp):
                os.unlink(tmp)
        return out, h
