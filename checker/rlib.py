# -*- coding: utf-8 -*-
"""helpers shared by the rule modules"""
import os
import sys

sys.path.insert(0, os.path.join(os.path.dirname(os.path.dirname(os.path.abspath(__file__))), 'oracles'))

from pete import Bottom, Unanalysable, py, RInt, Opt, SV, EV  # noqa


class T(object):
    """thin convenience layer over an Interp"""

    def __init__(self, I):
        self.I = I

    def name(self, v):
        return self.I.method(v, 'get_name')

    def idx(self, v):
        return py(self.I.method(v, 'get_index'))

    def mk(self, ty, i):
        return self.I.call('%s::from_index' % ty, [i])

    def stem(self, i):
        return self.mk('HeavenStem', i)

    def branch(self, i):
        return self.mk('EarthBranch', i)

    def sixty(self, i):
        return self.mk('SixtyCycle', i)

    def m(self, v, meth, *args):
        return self.I.method(v, meth, *args)

    def names(self, static):
        return py(self.I.static(static))


def table(ctx, rule, key, domain, impl, oracle, what, fmt=None, site=None):
    """compare impl(x) with oracle(x) for every x in a finite domain; one obligation"""
    from pete import Bottom, Unanalysable
    bad = []
    n = 0
    try:
        for x in domain:
            n += 1
            try:
                got = impl(x)
            except Bottom as b:
                got = 'PANIC(%s)' % b.reason
            exp = oracle(x)
            if got != exp:
                bad.append({'input': fmt(x) if fmt else repr(x), 'got': got, 'expected': exp})
    except Unanalysable as u:
        ctx.unanalysable(rule, key, '%s: %s' % (what, u))
        return False
    if bad:
        ctx.violation(rule, key, '%s: %d of %d table points differ from the first-principles encoding; first: %s -> got %s, expected %s%s'
                      % (what, len(bad), n, bad[0]['input'], bad[0]['got'], bad[0]['expected'], (' [site %s]' % site) if site else ''),
                      {'mismatches': bad[:12], 'points': n}, n)
        return False
    ctx.ok(rule, n, {'rule': rule, 'instance': key, 'what': what, 'points': n})
    return True


def fn_site(prog, qname):
    try:
        f = prog.fn(qname)
        return '%s:%d %s' % (f.file, f.ln, qname)
    except Exception:
        return qname
