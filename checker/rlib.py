# -*- coding: utf-8 -*-
"""helpers shared by the rule modules"""
import os
import sys

sys.path.insert(0, os.path.join(os.path.dirname(os.path.dirname(os.path.abspath(__file__))), 'oracles'))

from pete import Bottom, Unanalysable, py, RInt, Opt, SV, EV  # noqa


class T(object):
    """thin convenience layer over an Interp"""

    def __init__(self, I):
        self.I = I

    def name(self, v):
        return self.I.method(v, 'get_name')

    def idx(self, v):
        return py(self.I.method(v, 'get_index'))

    def mk(self, ty, i):
        return self.I.call('%s::from_index' % ty, [i])

    def stem(self, i):
        return self.mk('HeavenStem', i)

    def branch(self, i):
        return self.mk('EarthBranch', i)

    def sixty(self, i):
        return self.mk('SixtyCycle', i)

    def m(self, v, meth, *args):
        return self.I.method(v, meth, *args)

    def names(self, static):
        return py(self.I.static(static))


NPROC = int(os.environ.get('VERIF_NPROC', '0') or 0) or min(16, os.cpu_count() or 1)


def pmap(fn, items, nproc=None):
    """fork-based parallel map (closures are inherited by fork; results are pickled back)"""
    import pickle
    nproc = nproc or NPROC
    items = list(items)
    if nproc <= 1 or len(items) < 400:
        return [fn(x) for x in items]
    chunks = [items[i::nproc] for i in range(nproc)]
    kids = []
    for ch in chunks:
        r, w = os.pipe()
        pid = os.fork()
        if pid == 0:
            os.close(r)
            import pete as _p
            before = set(_p.COVER)
            try:
                out = ('ok', [fn(x) for x in ch], sorted(_p.COVER - before))
            except BaseException as ex:  # noqa
                out = ('err', '%s: %s' % (type(ex).__name__, ex), [])
            with os.fdopen(w, 'wb') as fh:
                pickle.dump(out, fh)
            os._exit(0)
        os.close(w)
        kids.append((pid, r))
    results = []
    for pid, r in kids:
        with os.fdopen(r, 'rb') as fh:
            data = fh.read()
        os.waitpid(pid, 0)
        results.append(pickle.loads(data) if data else ('err', 'worker died'))
    out = [None] * len(items)
    import pete as _p
    for i, rr in enumerate(results):
        st, res = rr[0], rr[1]
        if len(rr) > 2:
            _p.COVER.update(rr[2])
        if st != 'ok':
            raise Unanalysable(res) if 'Unanalysable' in str(res) else RuntimeError(res)
        out[i::nproc] = res
    return out


def table(ctx, rule, key, domain, impl, oracle, what, fmt=None, site=None):
    """compare impl(x) with oracle(x) for every x in a finite domain; one obligation"""
    from pete import Bottom, Unanalysable
    bad = []
    domain = list(domain)
    n = len(domain)

    def one(x):
        try:
            got = impl(x)
        except Bottom as b:
            got = 'PANIC(%s)' % b.reason
        exp = oracle(x)
        if got != exp:
            return {'input': fmt(x) if fmt else repr(x), 'got': got, 'expected': exp}
        return None
    try:
        bad = [b for b in pmap(one, domain) if b is not None]
    except Unanalysable as u:
        ctx.unanalysable(rule, key, '%s: %s' % (what, u))
        return False
    if bad:
        ctx.violation(rule, key, '%s: %d of %d table points differ from the first-principles encoding; first: %s -> got %s, expected %s%s'
                      % (what, len(bad), n, bad[0]['input'], bad[0]['got'], bad[0]['expected'], (' [site %s]' % site) if site else ''),
                      {'mismatches': bad[:12], 'points': n}, n)
        return False
    cases = []
    if len(ctx.samples) < 34:
        for x in (domain[:1] + domain[-1:] if n > 1 else domain[:1]):
            try:
                v = impl(x)
            except Exception as ex:  # noqa
                v = 'panic/unanalysable: %s' % ex
            cases.append({'input': fmt(x) if fmt else repr(x), 'evaluated': v if isinstance(v, (int, str, bool, float, type(None))) else repr(v)[:300], 'oracle_agrees': True})
    ctx.ok(rule, n, {'rule': rule, 'instance': key, 'what': what, 'points': n, 'site': site, 'cases': cases})
    return True


def fn_site(prog, qname):
    try:
        f = prog.fn(qname)
        return '%s:%d %s' % (f.file, f.ln, qname)
    except Exception:
        return qname
