"""PETE: finite-domain table evaluator for the Rust subset used by tyme4rs.

An abstract interpreter over the syntax trees emitted by srcfacts. Its abstract domain is exact
because the rule instances only ever feed it values from finite domains fixed by the types (cycle
indices, hours, small offsets, literal tables).  It never runs compiled code; a configurable set of
FORBIDDEN functions (astronomical float series, the Julian-day formulas) makes any evaluation that
would depend on calendar numerics fail with Unanalysable instead of producing a value.

Panics (unwrap on None/Err, index out of range, integer overflow as in a debug build, explicit
panic!/unimplemented!) are the value BOTTOM, raised as the exception Bottom.
"""
import math
import re

from prog import Program, ProgError, norm_ty, split_generic


class Bottom(Exception):
    """the evaluated code panics"""

    def __init__(self, reason, ln=None):
        Exception.__init__(self, reason)
        self.reason = reason
        self.ln = ln


class Unanalysable(Exception):
    """outside the evaluator's envelope (fail closed)"""


class ReturnEx(Exception):
    def __init__(self, v):
        self.v = v


class BreakEx(Exception):
    def __init__(self, v=None):
        self.v = v


class ContinueEx(Exception):
    pass


INT_RANGES = {
    'usize': (0, 2 ** 64 - 1), 'isize': (-2 ** 63, 2 ** 63 - 1), 'u64': (0, 2 ** 64 - 1), 'i64': (-2 ** 63, 2 ** 63 - 1),
    'u32': (0, 2 ** 32 - 1), 'i32': (-2 ** 31, 2 ** 31 - 1), 'u16': (0, 2 ** 16 - 1), 'i16': (-2 ** 15, 2 ** 15 - 1),
    'u8': (0, 255), 'i8': (-128, 127), 'u128': (0, 2 ** 128 - 1), 'i128': (-2 ** 127, 2 ** 127 - 1),
}
FLOAT_TYPES = ('f64', 'f32')


class RInt(object):
    __slots__ = ('v', 't')

    def __init__(self, v, t=None):
        self.v = v
        self.t = t

    def __repr__(self):
        return '%d%s' % (self.v, self.t or '')

    def __eq__(self, o):
        if isinstance(o, RInt):
            return self.v == o.v
        if isinstance(o, int) and not isinstance(o, bool):
            return self.v == o
        return NotImplemented

    def __ne__(self, o):
        r = self.__eq__(o)
        return r if r is NotImplemented else not r

    def __hash__(self):
        return hash(self.v)

    def __int__(self):
        return self.v

    def __index__(self):
        return self.v


class Char(object):
    __slots__ = ('c',)

    def __init__(self, c):
        self.c = c

    def __eq__(self, o):
        return isinstance(o, Char) and o.c == self.c

    def __hash__(self):
        return hash(self.c)

    def __repr__(self):
        return "'%s'" % self.c


class SV(object):
    """struct value"""
    __slots__ = ('ty', 'f')

    def __init__(self, ty, f):
        self.ty = ty
        self.f = f

    def __repr__(self):
        return '%s%r' % (self.ty, self.f)


class EV(object):
    """enum value (unit variants, or tuple payload)"""
    __slots__ = ('ty', 'var', 'payload')

    def __init__(self, ty, var, payload=None):
        self.ty = ty
        self.var = var
        self.payload = payload

    def __eq__(self, o):
        return isinstance(o, EV) and o.ty == self.ty and o.var == self.var and o.payload == self.payload

    def __hash__(self):
        return hash((self.ty, self.var))

    def __repr__(self):
        return '%s::%s' % (self.ty, self.var)


class Opt(object):
    __slots__ = ('v', 'some')

    def __init__(self, v=None, some=True):
        self.v = v
        self.some = some

    def __repr__(self):
        return 'Some(%r)' % (self.v,) if self.some else 'None'

    def __eq__(self, o):
        return isinstance(o, Opt) and o.some == self.some and (not self.some or o.v == self.v)

    def __hash__(self):
        return hash(self.some)


NONE = Opt(None, False)


class Res(object):
    __slots__ = ('v', 'ok')

    def __init__(self, v, ok):
        self.v = v
        self.ok = ok

    def __repr__(self):
        return ('Ok(%r)' if self.ok else 'Err(%r)') % (self.v,)


class Closure(object):
    __slots__ = ('params', 'body', 'env', 'self_ty', 'file')

    def __init__(self, params, body, env, self_ty, file=None):
        self.params = params
        self.body = body
        self.env = env
        self.self_ty = self_ty
        self.file = file


class PyFn(object):
    """python callable usable as closure / fn value"""
    __slots__ = ('f',)

    def __init__(self, f):
        self.f = f


class Iter(object):
    """eager iterator"""
    __slots__ = ('items', 'pos')

    def __init__(self, items):
        self.items = list(items)
        self.pos = 0


class RangeV(object):
    __slots__ = ('lo', 'hi', 'incl', 't')

    def __init__(self, lo, hi, incl, t=None):
        self.lo = lo
        self.hi = hi
        self.incl = incl
        self.t = t

    def to_list(self):
        if self.lo is None or self.hi is None:
            raise Unanalysable('unbounded range iteration')
        hi = self.hi + 1 if self.incl else self.hi
        return [RInt(i, self.t) for i in range(self.lo, hi)]


class CellV(object):
    """RefCell / Mutex / Cell contents"""
    __slots__ = ('v', 'kind')

    def __init__(self, v, kind):
        self.v = v
        self.kind = kind


class Formatter(object):
    __slots__ = ('buf',)

    def __init__(self):
        self.buf = ''


class RegexV(object):
    __slots__ = ('src', 'rx')

    def __init__(self, src):
        self.src = src
        try:
            self.rx = re.compile(translate_regex(src))
        except re.error as e:
            raise Bottom('regex compile error: %s' % e)


class MatchV(object):
    __slots__ = ('m',)

    def __init__(self, m):
        self.m = m


class Symbolic(object):
    """opaque symbolic value supplied by a rule (e.g. an abstract day point)"""
    __slots__ = ('tag', 'data')

    def __init__(self, tag, data=None):
        self.tag = tag
        self.data = data

    def __repr__(self):
        return '<%s %r>' % (self.tag, self.data)

    def __eq__(self, o):
        return isinstance(o, Symbolic) and o.tag == self.tag and o.data == self.data

    def __hash__(self):
        return hash((self.tag, repr(self.data)))


UNIT = ()


def translate_regex(src):
    # the regex crate and python `re` agree on the simple ASCII subset used here; (?x) etc. not used
    if re.search(r'\\p|\(\?[a-zA-Z]|\[\[:', src):
        raise Unanalysable('regex feature outside envelope: %r' % src)
    return src


def utf8_slice(s, lo, hi):
    b = s.encode('utf-8')
    if lo is None:
        lo = 0
    if hi is None:
        hi = len(b)
    if lo < 0 or hi > len(b) or lo > hi:
        raise Bottom('str slice %s..%s out of range (len %d)' % (lo, hi, len(b)))
    try:
        return b[lo:hi].decode('utf-8')
    except UnicodeDecodeError:
        raise Bottom('str slice not on char boundary')
    finally:
        pass


def is_char_boundary(b, i):
    return i == 0 or i == len(b) or (b[i] & 0xC0) != 0x80


def fmt_float(x, prec=None):
    if prec is not None:
        return '%.*f' % (prec, x)
    if x != x:
        return 'NaN'
    if x in (float('inf'), float('-inf')):
        return 'inf' if x > 0 else '-inf'
    if x == int(x) and abs(x) < 1e16:
        return str(int(x))
    r = repr(x)
    if 'e' in r or 'E' in r:
        # rust never prints exponents in Display
        from decimal import Decimal
        return format(Decimal(r), 'f')
    return r


FORMAT_RE = re.compile(r'\{\{|\}\}|\{([^{}]*)\}')


COVER = set()   # qualified names of every repository function whose body was evaluated in this process (what-was-analysed accounting)


class Interp(object):
    def __init__(self, prog, fuel=3000000):
        self.p = prog
        self.static_cache = {}
        self.overrides = {}       # 'Type::method' -> callable(interp, recv_or_None, args)
        self.forbidden = set()    # qnames (or 'Type::*') that must not be evaluated
        self.fuel0 = fuel
        self.fuel = fuel
        self.calls = 0
        self.trace_calls = None   # optional set collecting qnames reached
        self.depth = 0
        self._disp = dict((n[2:], getattr(self, n)) for n in dir(self) if n.startswith('e_'))

    # ------------------------------------------------------------------ helpers
    def reset_fuel(self):
        self.fuel = self.fuel0

    def burn(self, n=1):
        self.fuel -= n
        if self.fuel < 0:
            raise Unanalysable('fuel exhausted (loop or recursion beyond the evaluator bound)')

    def coerce(self, v, ty):
        """attach the declared type to ints / check ranges"""
        if ty is None or isinstance(v, (str, SV, bool, float, EV)):
            return v
        t = norm_ty(ty)
        if isinstance(v, RInt):
            if t in INT_RANGES:
                lo, hi = INT_RANGES[t]
                if v.v < lo or v.v > hi:
                    raise Bottom('integer %d out of range for %s' % (v.v, t))
                if v.t != t:
                    return RInt(v.v, t)
                return v
            if t in FLOAT_TYPES:
                return v
            return v
        if isinstance(v, list):
            head, gs = split_generic(t)
            if head in ('Vec',) and gs and norm_ty(gs[0]) in INT_RANGES:
                et = norm_ty(gs[0])
                for i, e in enumerate(v):
                    if isinstance(e, RInt) and e.t != et:
                        v[i] = self.coerce(e, et)
            elif t.startswith('[') and ';' in t:
                et = norm_ty(t[1:t.index(';')])
                if et in INT_RANGES:
                    for i, e in enumerate(v):
                        if isinstance(e, RInt) and e.t != et:
                            v[i] = self.coerce(e, et)
            return v
        if isinstance(v, Opt) and v.some:
            head, gs = split_generic(t)
            if head == 'Option' and gs:
                return Opt(self.coerce(v.v, gs[0]))
        return v

    # ------------------------------------------------------------------ statics
    def static(self, name, file=None):
        try:
            it = self.p.resolve_static(name, file)
        except ProgError as pe:
            raise Unanalysable(str(pe))
        if it is None:
            raise Unanalysable('unknown static %s' % name)
        if name in getattr(self, 'forbidden_statics', ()):
            raise Unanalysable('evaluation reached the series table %s' % name)
        key = (it['file'], name)
        if key in self.static_cache:
            return self.static_cache[key]
        frame = Frame(self, None, name, it['file'])
        v = self.eval(it['expr'], frame, it['ty'])
        v = self.coerce(v, it['ty'])
        self.static_cache[key] = v
        return v

    # ------------------------------------------------------------------ calls
    def check_forbidden(self, q):
        if q in self.forbidden:
            raise Unanalysable('evaluation reached forbidden numeric function %s' % q)
        if '::' in q:
            ty = q.split('::')[0]
            if ty + '::*' in self.forbidden:
                raise Unanalysable('evaluation reached forbidden numeric function %s' % q)

    def call(self, qname, args, self_val=None, self_ty=None):
        """public entry: call Type::name or free fn with python-side args (auto-wrapped)"""
        args = [wrap(a) for a in args]
        if '::' in qname:
            ty, name = qname.rsplit('::', 1)
            return self.call_assoc(ty, name, args, self_val=self_val)
        fn = self.p.free_fns.get(qname)
        if fn is None:
            raise Unanalysable('no free fn %s' % qname)
        return self.call_fn(fn, None, args, None)

    def method(self, recv, name, *args):
        return self.mcall(recv, name, [wrap(a) for a in args], None, None)

    def call_assoc(self, ty, name, args, self_val=None, hint=None):
        q = '%s::%s' % (ty, name)
        if q in self.overrides:
            return self.overrides[q](self, self_val, args)
        self.check_forbidden(q)
        fn = self.p.find_method(ty, name, hint)
        if fn is None:
            raise Unanalysable('cannot resolve %s' % q)
        if fn.self_kind is not None:
            if self_val is None:
                if not args:
                    raise Unanalysable('method %s called without receiver' % q)
                self_val, args = args[0], args[1:]
            return self.call_fn(fn, self_val, args, ty)
        return self.call_fn(fn, None, args, ty)

    def call_fn(self, fn, self_val, args, self_ty):
        self.calls += 1
        self.burn(5)
        COVER.add(fn.qname)
        if self.trace_calls is not None:
            self.trace_calls.add(fn.qname)
        if fn.body is None:
            raise Unanalysable('fn %s has no body' % fn.qname)
        if len(args) != len(fn.params):
            raise Unanalysable('arity mismatch calling %s: %d vs %d' % (fn.qname, len(args), len(fn.params)))
        if self.depth > 150:
            raise Unanalysable('recursion depth')
        frame = Frame(self, self_ty or fn.owner, fn.qname, fn.file)
        if self_val is not None:
            frame.vars[-1]['self'] = self_val
        for p, a in zip(fn.params, args):
            a = self.coerce(a, p['ty'])
            self.bind(p['pat'], a, frame, must=True)
        self.depth += 1
        try:
            try:
                v = self.eval(fn.body, frame, fn.ret)
            except ReturnEx as r:
                v = r.v
        finally:
            self.depth -= 1
        if fn.ret is None:
            return UNIT
        return self.coerce(v, fn.ret)

    def call_value(self, f, args):
        if isinstance(f, Closure):
            frame = Frame(self, f.self_ty, '<closure>', f.file)
            frame.vars = list(f.env) + [{}]
            if len(args) != len(f.params):
                raise Unanalysable('closure arity')
            for p, a in zip(f.params, args):
                self.bind(p, a, frame, must=True)
            try:
                return self.eval(f.body, frame)
            except ReturnEx as r:
                return r.v
        if isinstance(f, PyFn):
            return f.f(*args)
        if isinstance(f, tuple) and f and f[0] == '$fnref':
            return self.call_path(f[1], args, None, None)
        raise Unanalysable('call of non-callable %r' % (f,))

    # ------------------------------------------------------------------ patterns
    def bind(self, pat, v, frame, must=False):
        """returns True if pattern matches, binding variables in frame's top scope"""
        k = pat['k']
        if k == 'pident':
            name = pat['name']
            if name == 'None' and not pat.get('sub'):
                ok = isinstance(v, Opt) and not v.some
                if must and not ok:
                    raise Unanalysable('irrefutable None?')
                return ok
            if name[:1].isupper() and self._enum_variant_by_name(name, v) is not None:
                return self._enum_variant_by_name(name, v)
            if pat.get('sub'):
                if not self.bind(pat['sub'], v, frame):
                    return False
            frame.vars[-1][name] = v
            return True
        if k == 'pwild':
            return True
        if k == 'ptype':
            return self.bind(pat['p'], self.coerce(v, pat['ty']), frame, must)
        if k == 'pref':
            return self.bind(pat['p'], v, frame, must)
        if k == 'ptuple':
            if not isinstance(v, tuple) or len(v) != len(pat['elems']):
                raise Unanalysable('tuple pattern mismatch')
            return all(self.bind(p, x, frame, must) for p, x in zip(pat['elems'], v))
        if k == 'plit':
            lit = self.eval(pat['e'], frame)
            return self.values_equal(lit, v)
        if k == 'por':
            return any(self.bind(p, v, frame) for p in pat['cases'])
        if k == 'prange':
            lo = self.eval(pat['lo'], frame) if pat['lo'] else None
            hi = self.eval(pat['hi'], frame) if pat['hi'] else None
            x = as_num(v)
            if lo is not None and x < as_num(lo):
                return False
            if hi is not None:
                if pat['incl']:
                    return x <= as_num(hi)
                return x < as_num(hi)
            return True
        if k == 'pts':
            segs = pat['path']['segs']
            last = segs[-1]
            if last == 'Some':
                return isinstance(v, Opt) and v.some and self.bind(pat['elems'][0], v.v, frame)
            if last == 'Ok':
                return isinstance(v, Res) and v.ok and self.bind(pat['elems'][0], v.v, frame)
            if last == 'Err':
                return isinstance(v, Res) and (not v.ok) and self.bind(pat['elems'][0], v.v, frame)
            if isinstance(v, EV) and v.var == last:
                pl = v.payload or ()
                return all(self.bind(p, x, frame) for p, x in zip(pat['elems'], pl))
            if isinstance(v, EV):
                return False
            raise Unanalysable('tuple-struct pattern %s' % segs)
        if k == 'ppath':
            segs = pat['path']['segs']
            last = segs[-1]
            if last == 'None' and len(segs) == 1:
                return isinstance(v, Opt) and not v.some
            if isinstance(v, EV):
                return v.var == last
            if isinstance(v, Opt) or isinstance(v, Res):
                return False
            # constant pattern
            c = self.eval({'k': 'path', 'segs': segs, 'generics': []}, frame)
            return self.values_equal(c, v)
        if k == 'pstruct':
            if not isinstance(v, SV):
                raise Unanalysable('struct pattern on non-struct')
            for name, p in pat['fields']:
                if not self.bind(p, v.f[name], frame):
                    return False
            return True
        raise Unanalysable('pattern kind %s' % k)

    def _enum_variant_by_name(self, name, v):
        if isinstance(v, EV):
            for var in self.p.enums.get(v.ty, {}).get('variants', []):
                if var['name'] == name:
                    return v.var == name
        return None

    # ------------------------------------------------------------------ equality / ordering
    def values_equal(self, a, b):
        if isinstance(a, SV) and isinstance(b, SV):
            if a.ty != b.ty:
                raise Unanalysable('== between different struct types %s %s' % (a.ty, b.ty))
            fn = None
            for tr, fns in self.p.trait_impls.get(a.ty, {}).items():
                if tr.startswith('PartialEq') and 'eq' in fns:
                    fn = fns['eq']
            if fn is not None:
                r = self.call_fn(fn, a, [b], a.ty)
                return bool(r)
            derives = ' '.join(self.p.structs[a.ty]['attrs'])
            if 'PartialEq' in derives:
                return all(self.values_equal(a.f[k], b.f[k]) for k in a.f)
            raise Unanalysable('no PartialEq for %s' % a.ty)
        if isinstance(a, EV) and isinstance(b, EV):
            fn = None
            for tr, fns in self.p.trait_impls.get(a.ty, {}).items():
                if tr.startswith('PartialEq') and 'eq' in fns:
                    fn = fns['eq']
            if fn is not None:
                return bool(self.call_fn(fn, a, [b], a.ty))
            return a == b
        if isinstance(a, (RInt, int, float)) and isinstance(b, (RInt, int, float)) and not isinstance(a, bool) and not isinstance(b, bool):
            return as_num(a) == as_num(b)
        if isinstance(a, list) and isinstance(b, list):
            return len(a) == len(b) and all(self.values_equal(x, y) for x, y in zip(a, b))
        if isinstance(a, tuple) and isinstance(b, tuple):
            return len(a) == len(b) and all(self.values_equal(x, y) for x, y in zip(a, b))
        if isinstance(a, Opt) and isinstance(b, Opt):
            return a.some == b.some and (not a.some or self.values_equal(a.v, b.v))
        if type(a) != type(b):
            raise Unanalysable('== between %s and %s' % (type(a).__name__, type(b).__name__))
        return a == b

    # ------------------------------------------------------------------ display
    def display(self, v):
        if isinstance(v, str):
            return v
        if isinstance(v, bool):
            return 'true' if v else 'false'
        if isinstance(v, RInt):
            return str(v.v)
        if isinstance(v, float):
            return fmt_float(v)
        if isinstance(v, Char):
            return v.c
        if isinstance(v, (SV, EV)):
            fn = None
            for tr, fns in self.p.trait_impls.get(v.ty, {}).items():
                if tr in ('Display', 'std::fmt::Display', 'fmt::Display') and 'fmt' in fns:
                    fn = fns['fmt']
            if fn is None:
                raise Unanalysable('no Display for %s' % v.ty)
            f = Formatter()
            self.call_fn(fn, v, [f], v.ty)
            return f.buf
        if isinstance(v, Symbolic):
            raise Unanalysable('display of symbolic value %r' % v)
        raise Unanalysable('display of %s' % type(v).__name__)

    def format(self, args, frame):
        if not args:
            return ''
        fs = args[0]
        if fs['k'] != 'str':
            raise Unanalysable('format string is not a literal')
        s = fs['v']
        pos, named = [], {}
        for a in args[1:]:
            if a['k'] == 'assign' and a['l']['k'] == 'path' and len(a['l']['segs']) == 1:
                named[a['l']['segs'][0]] = self.eval(a['r'], frame)
            else:
                pos.append(self.eval(a, frame))
        nxt = [0]

        def getarg(name):
            if name == '':
                i = nxt[0]
                nxt[0] += 1
                if i >= len(pos):
                    raise Unanalysable('format args')
                return pos[i]
            if name.isdigit():
                return pos[int(name)]
            if name in named:
                return named[name]
            return frame.lookup(name)

        def repl(m):
            g = m.group(0)
            if g == '{{':
                return '{'
            if g == '}}':
                return '}'
            inner = m.group(1)
            if ':' in inner:
                name, spec = inner.split(':', 1)
            else:
                name, spec = inner, ''
            v = getarg(name.strip())
            return self.apply_spec(v, spec, getarg)

        return FORMAT_RE.sub(repl, s)

    def apply_spec(self, v, spec, getarg):
        if spec == '':
            return self.display(v)
        m = re.match(r'^(?:(.)?([<>^]))?([+])?(#)?(0)?(\d+\$|[A-Za-z_][A-Za-z0-9_]*\$|\d+)?(?:\.(\d+))?([xXob?e])?$', spec)
        if not m:
            raise Unanalysable('format spec %r' % spec)
        fill, align, plus, alt, zero, width, prec, ty = m.groups()
        if width is not None:
            if width.endswith('$'):
                width = as_num(getarg(width[:-1]))
            else:
                width = int(width)
        prec = int(prec) if prec is not None else None
        if ty == '?':
            if isinstance(v, str):
                body = '"%s"' % v
            else:
                body = self.display(v)
        elif ty in ('x', 'X', 'o', 'b'):
            n = as_num(v)
            if n < 0:
                raise Unanalysable('negative radix format')
            body = {'x': '%x', 'X': '%X', 'o': '%o'}.get(ty, '%d') % n if ty != 'b' else bin(n)[2:]
        elif isinstance(v, float):
            body = fmt_float(v, prec)
        else:
            body = self.display(v)
            if prec is not None and isinstance(v, str):
                body = body[:prec]
        if plus and isinstance(v, (RInt, float)) and as_num(v) >= 0:
            body = '+' + body
        if width is not None and len(body) < width:
            padn = width - len(body)
            if zero and align is None and isinstance(v, (RInt, float)):
                if body[:1] in '+-':
                    body = body[0] + '0' * padn + body[1:]
                else:
                    body = '0' * padn + body
            else:
                f = fill if fill is not None else ' '
                a = align or ('>' if isinstance(v, (RInt, float)) else '<')
                if a == '>':
                    body = f * padn + body
                elif a == '<':
                    body = body + f * padn
                else:
                    body = f * (padn // 2) + body + f * (padn - padn // 2)
        return body

    # ------------------------------------------------------------------ eval
    def eval(self, e, frame, hint=None):
        self.fuel -= 1
        if self.fuel < 0:
            raise Unanalysable('fuel exhausted (loop or recursion beyond the evaluator bound)')
        m = self._disp.get(e['k'])
        if m is None:
            raise Unanalysable('expression kind %s (line %s)' % (e['k'], e.get('ln')))
        return m(e, frame, hint)

    def e_int(self, e, frame, hint):
        suf = e.get('suf') or None
        if suf in FLOAT_TYPES:
            return float(e['v'])
        if suf is None and hint is not None:
            h = norm_ty(hint)
            if h in INT_RANGES:
                suf = h
            elif h in FLOAT_TYPES:
                return float(e['v'])
        return RInt(int(e['v']), suf)

    def e_float(self, e, frame, hint):
        return float(e['v'])

    def e_str(self, e, frame, hint):
        return e['v']

    def e_bytestr(self, e, frame, hint):
        return [RInt(b, 'u8') for b in e['v']]

    def e_bool(self, e, frame, hint):
        return e['v']

    def e_char(self, e, frame, hint):
        return Char(e['v'])

    def e_opaque(self, e, frame, hint):
        raise Unanalysable('opaque expression: %s' % e.get('what'))

    def e_path(self, e, frame, hint):
        segs = e['segs']
        if len(segs) == 1:
            n = segs[0]
            v = frame.lookup(n, None)
            if v is not None or frame.has(n):
                return v
            if n == 'None':
                return NONE
            if n in self.p.static_defs:
                return self.static(n, frame.file)
            if n in self.p.free_fns:
                return ('$fnref', segs)
            if n in ('Some', 'Ok', 'Err'):
                return ('$fnref', segs)
            raise Unanalysable('unbound name %s (line %s)' % (n, e.get('ln')))
        head, last = segs[-2], segs[-1]
        if head == 'Self':
            head = frame.self_ty
        if head in self.p.enums:
            for var in self.p.enums[head]['variants']:
                if var['name'] == last:
                    if var['nfields']:
                        return ('$fnref', [head, last])
                    return EV(head, last)
        key = '%s::%s' % (head, last)
        if key in self.p.statics:
            return self.static(key, frame.file)
        if last in self.p.statics and (head in ('crate', 'self', 'super') or head[:1].islower()):
            return self.static(last, frame.file)
        if head in ('f64', 'consts') or segs[0] == 'std' or head in INT_RANGES:
            consts = {'PI': math.pi, 'E': math.e, 'EPSILON': 2.220446049250313e-16, 'INFINITY': float('inf'),
                      'NEG_INFINITY': float('-inf'), 'NAN': float('nan')}
            if head in INT_RANGES and last in ('MAX', 'MIN'):
                lo, hi = INT_RANGES[head]
                return RInt(hi if last == 'MAX' else lo, head)
            if head == 'f64' and last in ('MAX', 'MIN'):
                return 1.7976931348623157e308 if last == 'MAX' else -1.7976931348623157e308
            if last in consts:
                return consts[last]
        if head == 'Ordering' and last in ('Less', 'Equal', 'Greater'):
            return EV('Ordering', last)
        if self.p.is_type(head) or head in ('Option', 'Result', 'String', 'Vec', 'ToString', 'Clone', 'Into', 'From', 'ToOwned', 'AsRef', 'Borrow', 'Iterator', 'IntoIterator', 'str', 'char') \
                or head in INT_RANGES or head in FLOAT_TYPES:
            return ('$fnref', [head, last])
        raise Unanalysable('path %s (line %s)' % ('::'.join(segs), e.get('ln')))

    def e_bin(self, e, frame, hint):
        op = e['op']
        if op == '&&':
            return bool(self.eval(e['l'], frame)) and bool(self.eval(e['r'], frame))
        if op == '||':
            return bool(self.eval(e['l'], frame)) or bool(self.eval(e['r'], frame))
        if op.endswith('=') and op not in ('==', '!=', '<=', '>='):
            cur = self.eval(e['l'], frame)
            t = cur.t if isinstance(cur, RInt) else ('f64' if isinstance(cur, float) else None)
            r = self.eval(e['r'], frame, t)
            if isinstance(cur, str) and op == '+=':
                nv = cur + self.display(r)
            else:
                nv = self.arith(op[:-1], cur, r, e)
            self.assign(e['l'], nv, frame)
            return UNIT
        lhint = hint if op in ('+', '-', '*', '/', '%') else None
        l = self.eval(e['l'], frame, lhint)
        t = l.t if isinstance(l, RInt) else ('f64' if isinstance(l, float) else lhint)
        r = self.eval(e['r'], frame, t)
        if isinstance(l, RInt) and l.t is None and isinstance(r, float):
            l = float(l.v)
        if isinstance(r, RInt) and r.t is None and isinstance(l, float):
            r = float(r.v)
        if op in ('==', '!='):
            eq = self.values_equal(l, r)
            return eq if op == '==' else not eq
        if op in ('<', '<=', '>', '>='):
            a, b = self.ordkey(l), self.ordkey(r)
            if op == '<':
                return a < b
            if op == '<=':
                return a <= b
            if op == '>':
                return a > b
            return a >= b
        return self.arith(op, l, r, e)

    def ordkey(self, v):
        if isinstance(v, (RInt, float)) and not isinstance(v, bool):
            return as_num(v)
        if isinstance(v, str):
            return v.encode('utf-8')
        if isinstance(v, Char):
            return ord(v.c)
        if isinstance(v, bool):
            return int(v)
        if isinstance(v, tuple):
            return tuple(self.ordkey(x) for x in v)
        if isinstance(v, list):
            return [self.ordkey(x) for x in v]
        if isinstance(v, Opt):
            return (1, self.ordkey(v.v)) if v.some else (0,)
        if isinstance(v, EV) and v.ty == 'Ordering':
            return {'Less': -1, 'Equal': 0, 'Greater': 1}[v.var]
        raise Unanalysable('ordering on %s' % type(v).__name__)

    def arith(self, op, l, r, e):
        if isinstance(l, str) and op == '+':
            return l + self.display(r)
        if isinstance(l, bool) or isinstance(r, bool):
            if op == '&':
                return bool(l) and bool(r)
            if op == '|':
                return bool(l) or bool(r)
            if op == '^':
                return bool(l) != bool(r)
            raise Unanalysable('arith on bool')
        if isinstance(l, float) or isinstance(r, float):
            if isinstance(l, RInt):
                if l.t is not None:
                    raise Unanalysable('int/float mix')
                l = float(l.v)
            if isinstance(r, RInt):
                if r.t is not None:
                    raise Unanalysable('int/float mix')
                r = float(r.v)
            try:
                if op == '+':
                    return l + r
                if op == '-':
                    return l - r
                if op == '*':
                    return l * r
                if op == '/':
                    if r == 0.0:
                        if l == 0.0 or l != l:
                            return float('nan')
                        return float('inf') if (l > 0) == (math.copysign(1.0, r) > 0) else float('-inf')
                    return l / r
                if op == '%':
                    if r == 0.0:
                        return float('nan')
                    return math.fmod(l, r)
            except OverflowError:
                return float('inf')
            raise Unanalysable('float op %s' % op)
        if not isinstance(l, RInt) or not isinstance(r, RInt):
            raise Unanalysable('arith %s on %s,%s (line %s)' % (op, type(l).__name__, type(r).__name__, e.get('ln')))
        t = l.t or r.t
        if l.t and r.t and l.t != r.t and op not in ('<<', '>>'):
            raise Unanalysable('mixed int types %s %s (line %s)' % (l.t, r.t, e.get('ln')))
        a, b = l.v, r.v
        if op == '+':
            v = a + b
        elif op == '-':
            v = a - b
        elif op == '*':
            v = a * b
        elif op == '/':
            if b == 0:
                raise Bottom('division by zero', e.get('ln'))
            v = abs(a) // abs(b)
            if (a < 0) != (b < 0):
                v = -v
        elif op == '%':
            if b == 0:
                raise Bottom('remainder by zero', e.get('ln'))
            v = abs(a) % abs(b)
            if a < 0:
                v = -v
        elif op == '&':
            v = a & b
        elif op == '|':
            v = a | b
        elif op == '^':
            v = a ^ b
        elif op == '<<':
            v = a << b
            t = l.t
        elif op == '>>':
            v = a >> b
            t = l.t
        else:
            raise Unanalysable('int op %s' % op)
        if t is not None:
            lo, hi = INT_RANGES[t]
            if v < lo or v > hi:
                raise Bottom('integer overflow: %d %s %d as %s' % (a, op, b, t), e.get('ln'))
        return RInt(v, t)

    def e_un(self, e, frame, hint):
        op = e['op']
        if op == '*':
            return self.eval(e['e'], frame, hint)
        v = self.eval(e['e'], frame, hint)
        if op == '!':
            if isinstance(v, bool):
                return not v
            raise Unanalysable('bitwise not')
        if op == '-':
            if isinstance(v, float):
                return -v
            if isinstance(v, RInt):
                if v.t is not None:
                    lo, hi = INT_RANGES[v.t]
                    if -v.v < lo or -v.v > hi:
                        raise Bottom('negation overflow')
                return RInt(-v.v, v.t)
        raise Unanalysable('unary %s' % op)

    def e_ref(self, e, frame, hint):
        return self.eval(e['e'], frame, hint)

    def e_cast(self, e, frame, hint):
        ty = norm_ty(e['ty'])
        v = self.eval(e['e'], frame)
        if ty in INT_RANGES:
            lo, hi = INT_RANGES[ty]
            if isinstance(v, RInt):
                n = v.v
                span = hi - lo + 1
                n = (n - lo) % span + lo
                return RInt(n, ty)
            if isinstance(v, float):
                if v != v:
                    return RInt(0, ty)
                if v == float('inf'):
                    return RInt(hi, ty)
                if v == float('-inf'):
                    return RInt(lo, ty)
                n = int(v)
                return RInt(max(lo, min(hi, n)), ty)
            if isinstance(v, bool):
                return RInt(int(v), ty)
            if isinstance(v, Char):
                return RInt(ord(v.c) % (hi + 1), ty)
            if isinstance(v, EV):
                vs = self.p.enums[v.ty]['variants']
                d = 0
                for var in vs:
                    if var.get('disc') is not None:
                        d = as_num(self.eval(var['disc'], frame))
                    if var['name'] == v.var:
                        return RInt(d, ty)
                    d += 1
            raise Unanalysable('cast %s to %s' % (type(v).__name__, ty))
        if ty == 'f32':
            # the evaluator models IEEE doubles only: single-precision arithmetic (rounding after every operation) is outside its envelope
            raise Unanalysable('cast to f32: single-precision arithmetic is not modelled (the crate computes in f64)')
        if ty in FLOAT_TYPES:
            if isinstance(v, RInt):
                return float(v.v)
            if isinstance(v, float):
                return v
            raise Unanalysable('cast to float')
        if ty == 'char' and isinstance(v, RInt):
            return Char(chr(v.v))
        return v

    def e_field(self, e, frame, hint):
        v = self.eval(e['e'], frame)
        name = e['name']
        if isinstance(v, SV):
            if name not in v.f:
                raise Unanalysable('no field %s on %s' % (name, v.ty))
            return v.f[name]
        if isinstance(v, tuple) and name.isdigit():
            return v[int(name)]
        raise Unanalysable('field %s of %s (line %s)' % (name, type(v).__name__, e.get('ln')))

    def e_index(self, e, frame, hint):
        base = self.eval(e['e'], frame)
        i = self.eval(e['i'], frame, 'usize')
        return self.index(base, i, e)

    def index(self, base, i, e=None):
        ln = e.get('ln') if e else None
        if isinstance(base, MatchV):
            g = base.m.group(as_num(i))
            if g is None:
                raise Bottom('capture group missing', ln)
            return g
        if isinstance(i, RangeV):
            lo, hi = i.lo, i.hi
            if hi is not None and i.incl:
                hi += 1
            if isinstance(base, str):
                return utf8_slice(base, lo, hi)
            if isinstance(base, list):
                lo = 0 if lo is None else lo
                hi = len(base) if hi is None else hi
                if lo < 0 or hi > len(base) or lo > hi:
                    raise Bottom('slice %d..%d out of range (len %d)' % (lo, hi, len(base)), ln)
                return base[lo:hi]
            raise Unanalysable('range index on %s' % type(base).__name__)
        if isinstance(base, list):
            n = as_num(i)
            if n < 0 or n >= len(base):
                raise Bottom('index %d out of bounds (len %d)' % (n, len(base)), ln)
            return base[n]
        if isinstance(base, dict):
            key = hkey(i)
            if key not in base:
                raise Bottom('HashMap key missing', ln)
            return base[key][1]
        raise Unanalysable('index on %s (line %s)' % (type(base).__name__, ln))

    def e_range(self, e, frame, hint):
        lo = self.eval(e['lo'], frame) if e['lo'] else None
        hi = self.eval(e['hi'], frame, (lo.t if isinstance(lo, RInt) else None)) if e['hi'] else None
        t = None
        for x in (lo, hi):
            if isinstance(x, RInt) and x.t:
                t = x.t
        return RangeV(None if lo is None else as_num(lo), None if hi is None else as_num(hi), e['incl'], t)

    def e_tuple(self, e, frame, hint):
        return tuple(self.eval(x, frame) for x in e['elems'])

    def e_array(self, e, frame, hint):
        eh = None
        if hint:
            h = norm_ty(hint)
            head, gs = split_generic(h)
            if head == 'Vec' and gs:
                eh = gs[0]
            elif h.startswith('[') and ';' in h:
                eh = h[1:h.index(';')]
            elif h.startswith('['):
                eh = h[1:-1]
        return [self.eval(x, frame, eh) for x in e['elems']]

    def e_repeat(self, e, frame, hint):
        v = self.eval(e['e'], frame)
        n = as_num(self.eval(e['n'], frame))
        return [deep_copy(v) for _ in range(n)]

    def e_block(self, e, frame, hint):
        frame.push()
        try:
            v = UNIT
            stmts = e['stmts']
            for i, s in enumerate(stmts):
                v = UNIT
                sk = s['k']
                if sk == 'local':
                    if s['init'] is None:
                        if s['pat']['k'] == 'pident':
                            frame.vars[-1][s['pat']['name']] = None
                            if s.get('ty'):
                                frame.types[s['pat']['name']] = s['ty']
                        continue
                    val = self.eval(s['init'], frame, s.get('ty'))
                    if s.get('ty'):
                        val = self.coerce(val, s['ty'])
                        if s['pat']['k'] == 'pident':
                            frame.types[s['pat']['name']] = s['ty']
                    if not self.bind(s['pat'], val, frame):
                        if s.get('else') is not None:
                            self.eval(s['else'], frame)
                            raise Unanalysable('let-else fallthrough')
                        raise Unanalysable('refutable let pattern failed')
                elif sk == 'expr':
                    last = (i == len(stmts) - 1) and not s['semi']
                    val = self.eval(s['e'], frame, hint if last else None)
                    if last:
                        v = val
                elif sk == 'item':
                    continue
                else:
                    raise Unanalysable('stmt kind %s' % sk)
            return v
        finally:
            frame.pop()

    def e_if(self, e, frame, hint):
        c = e['c']
        if c['k'] == 'let':
            val = self.eval(c['e'], frame)
            frame.push()
            try:
                if self.bind(c['pat'], val, frame):
                    return self.eval(e['t'], frame, hint)
            finally:
                frame.pop()
            if e.get('e') is not None:
                return self.eval(e['e'], frame, hint)
            return UNIT
        cv = self.eval(c, frame)
        if not isinstance(cv, bool):
            raise Unanalysable('non-bool condition (line %s)' % e.get('ln'))
        if cv:
            return self.eval(e['t'], frame, hint)
        if e.get('e') is not None:
            return self.eval(e['e'], frame, hint)
        return UNIT

    def e_match(self, e, frame, hint):
        v = self.eval(e['e'], frame)
        for arm in e['arms']:
            frame.push()
            try:
                if self.bind(arm['pat'], v, frame):
                    if arm.get('guard') is not None and not self.eval(arm['guard'], frame):
                        continue
                    return self.eval(arm['body'], frame, hint)
            finally:
                frame.pop()
        raise Unanalysable('no match arm (line %s)' % e.get('ln'))

    def iterate(self, it):
        if isinstance(it, RangeV):
            return it.to_list()
        if isinstance(it, list):
            return list(it)
        if isinstance(it, Iter):
            r = it.items[it.pos:]
            it.pos = len(it.items)
            return r
        if isinstance(it, dict):
            # HashMap iteration order is unspecified: only order-insensitive uses are accepted; we iterate in
            # insertion order and ALSO flag that an order-dependent result would be unsound (see EFFECT rule)
            return [(kv[0], kv[1]) for kv in it.values()]
        if isinstance(it, Opt):
            return [it.v] if it.some else []
        raise Unanalysable('iteration over %s' % type(it).__name__)

    def e_for(self, e, frame, hint):
        items = self.iterate(self.eval(e['iter'], frame))
        for x in items:
            frame.push()
            try:
                self.bind(e['pat'], x, frame, must=True)
                try:
                    self.eval(e['body'], frame)
                except ContinueEx:
                    continue
                except BreakEx:
                    break
            finally:
                frame.pop()
        return UNIT

    def e_while(self, e, frame, hint):
        while True:
            self.burn(2)
            c = e['c']
            if c['k'] == 'let':
                val = self.eval(c['e'], frame)
                frame.push()
                try:
                    if not self.bind(c['pat'], val, frame):
                        break
                    try:
                        self.eval(e['body'], frame)
                    except ContinueEx:
                        continue
                    except BreakEx:
                        break
                finally:
                    frame.pop()
                continue
            if not self.eval(c, frame):
                break
            try:
                self.eval(e['body'], frame)
            except ContinueEx:
                continue
            except BreakEx:
                break
        return UNIT

    def e_loop(self, e, frame, hint):
        while True:
            self.burn(2)
            try:
                self.eval(e['body'], frame)
            except ContinueEx:
                continue
            except BreakEx as b:
                return b.v if b.v is not None else UNIT

    def e_break(self, e, frame, hint):
        raise BreakEx(self.eval(e['e'], frame) if e.get('e') else None)

    def e_continue(self, e, frame, hint):
        raise ContinueEx()

    def e_return(self, e, frame, hint):
        raise ReturnEx(self.eval(e['e'], frame, frame.ret_hint) if e.get('e') else UNIT)

    def e_closure(self, e, frame, hint):
        if e.get('move'):
            # `move`: captured variables are copied into the closure when it is created; later assignments to the originals are not seen by it
            return Closure(e['params'], e['body'], [dict(d) for d in frame.vars], frame.self_ty, frame.file)
        return Closure(e['params'], e['body'], list(frame.vars), frame.self_ty, frame.file)

    def e_try(self, e, frame, hint):
        v = self.eval(e['e'], frame)
        if isinstance(v, Res):
            if v.ok:
                return v.v
            raise ReturnEx(v)
        if isinstance(v, Opt):
            if v.some:
                return v.v
            raise ReturnEx(NONE)
        raise Unanalysable('? on %s' % type(v).__name__)

    def e_matches(self, e, frame, hint):
        v = self.eval(e['e'], frame)
        frame.push()
        try:
            if self.bind(e['pat'], v, frame):
                if e.get('guard') is not None:
                    return bool(self.eval(e['guard'], frame))
                return True
            return False
        finally:
            frame.pop()

    def e_let(self, e, frame, hint):
        raise Unanalysable('let expression outside if/while')

    def e_struct(self, e, frame, hint):
        segs = e['path']['segs']
        name = segs[-1]
        if name == 'Self':
            name = frame.self_ty
        if name in self.p.structs:
            sd = self.p.structs[name]
            ftypes = dict(sd['fields'])
            f = {}
            if e.get('rest') is not None:
                base = self.eval(e['rest'], frame)
                f.update(base.f)
            for fname, fe in e['fields']:
                f[fname] = self.coerce(self.eval(fe, frame, ftypes.get(fname)), ftypes.get(fname))
            for fname, _ in sd['fields']:
                if fname not in f:
                    raise Unanalysable('missing field %s' % fname)
            return SV(name, f)
        raise Unanalysable('struct literal of unknown type %s' % name)

    def e_assign(self, e, frame, hint):
        t = None
        l = e['l']
        if l['k'] == 'path' and len(l['segs']) == 1:
            t = frame.types.get(l['segs'][0])
        v = self.eval(e['r'], frame, t)
        if t:
            v = self.coerce(v, t)
        self.assign(l, v, frame)
        return UNIT

    def assign(self, l, v, frame):
        k = l['k']
        if k == 'path' and len(l['segs']) == 1:
            n = l['segs'][0]
            old = frame.lookup(n, None)
            if isinstance(old, RInt) and isinstance(v, RInt) and old.t and v.t != old.t:
                v = self.coerce(v, old.t)
            frame.set(n, v)
            return
        if k == 'field':
            base = self.eval(l['e'], frame)
            if isinstance(base, SV):
                ft = dict(self.p.structs[base.ty]['fields']).get(l['name'])
                base.f[l['name']] = self.coerce(v, ft)
                return
            raise Unanalysable('assign to field of %s' % type(base).__name__)
        if k == 'index':
            base = self.eval(l['e'], frame)
            i = self.eval(l['i'], frame)
            if isinstance(base, list):
                n = as_num(i)
                if n < 0 or n >= len(base):
                    raise Bottom('index assign out of bounds')
                base[n] = v
                return
            raise Unanalysable('index assign on %s' % type(base).__name__)
        if k == 'tuple':
            if not isinstance(v, tuple) or len(v) != len(l['elems']):
                raise Unanalysable('destructuring assignment shape')
            for sub, x in zip(l['elems'], v):
                self.assign(sub, x, frame)
            return
        if k == 'un' and l['op'] == '*':
            inner = l['e']
            tgt = self.eval(inner, frame)
            if isinstance(tgt, CellV):
                tgt.v = v
                return
            return self.assign(inner, v, frame)
        raise Unanalysable('assignment target %s' % k)

    # ------------------------------------------------------------------ macros
    def e_macro(self, e, frame, hint):
        name = e['name']
        args = e.get('args')
        if name == 'format':
            return self.format(args, frame)
        if name == 'write' or name == 'writeln':
            f = self.eval(args[0], frame)
            if not isinstance(f, Formatter):
                raise Unanalysable('write! target')
            f.buf += self.format(args[1:], frame) + ('\n' if name == 'writeln' else '')
            return Res(UNIT, True)
        if name == 'vec':
            if args is None:
                toks = e.get('tokens', '')
                raise Unanalysable('vec![x; n] form: %s' % toks[:40])
            eh = None
            if hint:
                head, gs = split_generic(hint)
                if head == 'Vec' and gs:
                    eh = gs[0]
            return [self.eval(a, frame, eh) for a in args]
        if name in ('unimplemented', 'panic', 'todo', 'unreachable'):
            raise Bottom('%s!' % name, e.get('ln'))
        if name in ('println', 'eprintln', 'print', 'dbg'):
            return UNIT
        if name in ('assert', 'debug_assert'):
            if not self.eval(args[0], frame):
                raise Bottom('assertion failed', e.get('ln'))
            return UNIT
        if name in ('assert_eq', 'debug_assert_eq'):
            if not self.values_equal(self.eval(args[0], frame), self.eval(args[1], frame)):
                raise Bottom('assert_eq failed', e.get('ln'))
            return UNIT
        if name == 'matches':
            raise Unanalysable('matches! macro')
        raise Unanalysable('macro %s!' % name)

    # ------------------------------------------------------------------ calls
    def e_call(self, e, frame, hint):
        f = e['f']
        if f['k'] == 'path':
            segs = f['segs']
            if len(segs) == 1 and frame.has(segs[0]):
                fv = frame.lookup(segs[0])
                args = [self.eval(a, frame) for a in e['args']]
                return self.call_value(fv, args)
            return self.call_path(segs, None, e, frame, hint, f.get('generics'))
        fv = self.eval(f, frame)
        args = [self.eval(a, frame) for a in e['args']]
        return self.call_value(fv, args)

    def param_hints(self, fn, n):
        if fn is None:
            return [None] * n
        hs = [p['ty'] for p in fn.params]
        return (hs + [None] * n)[:n]

    def call_path(self, segs, args, e, frame, hint=None, generics=None):
        """segs: path segments; args: evaluated list or None (then evaluate e['args'] with param hints)"""
        def ev_args(fn=None):
            if args is not None:
                return args
            hs = self.param_hints(fn, len(e['args']))
            return [self.eval(a, frame, h) for a, h in zip(e['args'], hs)]

        last = segs[-1]
        if len(segs) == 1:
            if last == 'Some':
                a = ev_args()
                return Opt(a[0])
            if last == 'Ok':
                return Res(ev_args()[0], True)
            if last == 'Err':
                return Res(ev_args()[0], False)
            if last in self.overrides:
                return self.overrides[last](self, None, ev_args())
            fn = self.p.free_fns.get(last)
            if fn is not None:
                self.check_forbidden(last)
                return self.call_fn(fn, None, ev_args(fn), None)
            raise Unanalysable('call of unknown fn %s' % last)
        head = segs[-2]
        if head == 'Self' and frame is not None:
            head = frame.self_ty
        # user types first
        if head in self.p.structs or head in self.p.enums or head in self.p.traits:
            if head in self.p.enums:
                for var in self.p.enums[head]['variants']:
                    if var['name'] == last and var['nfields']:
                        return EV(head, last, tuple(ev_args()))
            q = '%s::%s' % (head, last)
            if q in self.overrides:
                a = ev_args(self.p.find_method(head, last, hint))
                return self.overrides[q](self, None, a)
            fn = self.p.find_method(head, last, hint)
            if fn is None:
                if last == 'default':
                    raise Unanalysable('derive Default')
                raise Unanalysable('cannot resolve %s' % q)
            self.check_forbidden(q)
            a = ev_args(fn)
            if fn.self_kind is not None:
                return self.call_fn(fn, a[0], a[1:], head)
            return self.call_fn(fn, None, a, head)
        a = ev_args()
        return self.builtin_assoc(head, last, a, hint, generics)

    def builtin_assoc(self, head, last, a, hint, generics=None):
        if head == 'iter' and last == 'once':
            return Iter([a[0]])
        if head == 'iter' and last == 'empty':
            return Iter([])
        if head == 'iter' and last == 'repeat':
            raise Unanalysable('iter::repeat is unbounded')
        if head in ('cmp', 'std') and last in ('min', 'max'):
            x, y = a[0], a[1]
            kx, ky = self.ordkey(x), self.ordkey(y)
            return (x if kx <= ky else y) if last == 'min' else (y if ky >= kx else x)
        if head == 'mem' and last == 'swap':
            raise Unanalysable('mem::swap needs place semantics')
        if head == 'mem' and last in ('take', 'replace'):
            raise Unanalysable('mem::%s needs place semantics' % last)
        if head in ('Box', 'Arc', 'Rc') and last == 'new':
            return a[0]
        if head in ('Mutex', 'RwLock') and last == 'new':
            return CellV(a[0], 'mutex')
        if head in ('RefCell', 'Cell') and last == 'new':
            return CellV(a[0], 'refcell')
        if head == 'Vec' and last in ('new', 'with_capacity'):
            return []
        if head == 'Vec' and last == 'from':
            return list(a[0])
        if head in ('HashMap', 'BTreeMap') and last == 'new':
            return {}
        if head == 'String' and last in ('new', 'with_capacity'):
            return ''
        if head == 'char' and last == 'from_digit':
            d, r = as_num(a[0]), as_num(a[1])
            return Opt(Char('0123456789abcdefghijklmnopqrstuvwxyz'[d])) if d < r else NONE
        if head == 'char' and last == 'from_u32':
            return Opt(Char(chr(as_num(a[0]))))
        if head == 'char' and last == 'from':
            return Char(chr(as_num(a[0])))
        if head == 'String' and last == 'from':
            return self.display(a[0])
        if head == 'Regex' and last == 'new':
            try:
                return Res(RegexV(a[0]), True)
            except Bottom as b:
                return Res(str(b), False)
        if head in INT_RANGES and last == 'from_str_radix':
            return self.parse_int(a[0], as_num(a[1]), head)
        if head in INT_RANGES and last == 'from_str':
            return self.parse_int(a[0], 10, head)
        if head in FLOAT_TYPES and last == 'from_str':
            try:
                return Res(float(a[0]), True)
            except ValueError:
                return Res('invalid float literal', False)
        if head in FLOAT_TYPES and last == 'from':
            return float(as_num(a[0]))
        if head in INT_RANGES and last in ('from', 'try_from'):
            n = as_num(a[0]) if not isinstance(a[0], (bool, Char)) else (int(a[0]) if isinstance(a[0], bool) else ord(a[0].c))
            lo, hi = INT_RANGES[head]
            if last == 'try_from':
                return Res(RInt(n, head), True) if lo <= n <= hi else Res('out of range integral type conversion attempted', False)
            return self.coerce(RInt(n), head)
        if head == 'Some':
            return Opt(a[0])
        if head == 'Option' and last == 'Some':
            return Opt(a[0])
        if head == 'Result' and last in ('Ok', 'Err'):
            return Res(a[0], last == 'Ok')
        if head in FLOAT_TYPES or head in INT_RANGES or head in ('ToString', 'Clone', 'Into', 'ToOwned', 'AsRef', 'Borrow', 'Iterator', 'IntoIterator', 'str', 'char', 'String', 'Option', 'Vec'):
            # f64::floor(x) / ToString::to_string(x) / str::len(s): universal function call syntax on a builtin value
            if not a:
                raise Unanalysable('builtin path %s::%s without receiver' % (head, last))
            return self.mcall(a[0], last, a[1:], hint, None)
        raise Unanalysable('builtin path %s::%s' % (head, last))

    def parse_int(self, s, radix, ty):
        if not isinstance(s, str):
            raise Unanalysable('parse of non-string')
        t = s
        neg = False
        if t[:1] in '+-':
            lo, _ = INT_RANGES[ty]
            if t[0] == '-':
                neg = True
            t = t[1:]
        if t == '' or not all(c in '0123456789abcdefghijklmnopqrstuvwxyz'[:radix] for c in t.lower()):
            return Res('invalid digit found in string', False)
        v = int(t, radix)
        if neg:
            v = -v
        lo, hi = INT_RANGES[ty]
        if v < lo or v > hi:
            return Res('number out of range', False)
        return Res(RInt(v, ty), True)

    def e_mcall(self, e, frame, hint):
        name = e['m']
        if name in ('push_str', 'push') and e['recv'].get('k') == 'path' and len(e['recv']['segs']) == 1:
            cur = frame.lookup(e['recv']['segs'][0], None)
            if isinstance(cur, str):
                arg = self.eval(e['args'][0], frame)
                frame.set(e['recv']['segs'][0], cur + (arg.c if isinstance(arg, Char) else self.display(arg)))
                return UNIT
        recv = self.eval(e['recv'], frame, hint if name in ('unwrap', 'expect', 'unwrap_or', 'clone', 'abs') else None)
        fn = None
        if isinstance(recv, (SV, EV)):
            try:
                fn = self.p.find_method(recv.ty, name, hint)
            except ProgError:
                fn = None
        hs = self.param_hints(fn, len(e['args']))
        if fn is None and isinstance(recv, RInt):
            hs = [recv.t] * len(e['args'])
        if fn is None and isinstance(recv, float):
            hs = ['f64'] * len(e['args'])
        args = [self.eval(a, frame, h) for a, h in zip(e['args'], hs)]
        tf = e.get('turbofish')
        return self.mcall(recv, name, args, hint, tf, e)

    def mcall(self, recv, name, args, hint, tf, e=None):
        ln = e.get('ln') if e else None
        if isinstance(recv, EV) and recv.ty == 'Ordering':
            if name in ('is_lt', 'is_le', 'is_gt', 'is_ge', 'is_eq', 'is_ne'):
                return {'is_lt': recv.var == 'Less', 'is_le': recv.var != 'Greater', 'is_gt': recv.var == 'Greater', 'is_ge': recv.var != 'Less',
                        'is_eq': recv.var == 'Equal', 'is_ne': recv.var != 'Equal'}[name]
            if name == 'reverse':
                return EV('Ordering', {'Less': 'Greater', 'Greater': 'Less', 'Equal': 'Equal'}[recv.var])
            if name == 'then':
                return recv if recv.var != 'Equal' else args[0]
            if name in ('eq', 'ne'):
                return (recv == args[0]) == (name == 'eq')
        if isinstance(recv, (SV, EV)):
            q = '%s::%s' % (recv.ty, name)
            if q in self.overrides:
                return self.overrides[q](self, recv, args)
            fn = self.p.find_method(recv.ty, name, hint)
            if fn is not None:
                self.check_forbidden(q)
                return self.call_fn(fn, recv, args, recv.ty)
            if name == 'clone' or name == 'to_owned':
                return deep_copy(recv)
            if name == 'to_string':
                return self.display(recv)
            if name in ('eq', 'ne'):
                r = self.values_equal(recv, args[0])
                return r if name == 'eq' else not r
            if name in ('borrow', 'as_ref', 'deref', 'borrow_mut', 'as_mut'):
                return recv
            if name == 'into':
                return recv
            raise Unanalysable('no method %s on %s (line %s)' % (name, recv.ty, ln))
        if isinstance(recv, Symbolic):
            q = '%s::%s' % (recv.tag, name)
            if q in self.overrides:
                return self.overrides[q](self, recv, args)
            raise Unanalysable('method %s on symbolic %s' % (name, recv.tag))
        m = getattr(self, 'm_%s' % type(recv).__name__, None)
        if m is None:
            raise Unanalysable('method %s on %s (line %s)' % (name, type(recv).__name__, ln))
        return m(recv, name, args, hint, tf, ln)

    # ---- builtin method tables
    def m_str(self, s, name, a, hint, tf, ln):
        if name in ('to_string', 'as_str', 'to_owned', 'clone', 'into', 'borrow', 'as_ref', 'trim_matches_none', 'deref'):
            return s
        if name == 'len':
            return RInt(len(s.encode('utf-8')), 'usize')
        if name == 'is_empty':
            return s == ''
        if name == 'chars':
            return Iter([Char(c) for c in s])
        if name == 'bytes' or name == 'as_bytes':
            return [RInt(b, 'u8') for b in s.encode('utf-8')]
        if name == 'find':
            pat = a[0]
            if isinstance(pat, Char):
                pat = pat.c
            if isinstance(pat, str):
                i = s.find(pat)
                if i < 0:
                    return NONE
                return Opt(RInt(len(s[:i].encode('utf-8')), 'usize'))
            raise Unanalysable('str::find with closure')
        if name == 'split':
            sep = a[0].c if isinstance(a[0], Char) else a[0]
            if not isinstance(sep, str) or sep == '':
                raise Unanalysable('split pattern')
            return Iter(s.split(sep))
        if name == 'replace':
            frm = a[0].c if isinstance(a[0], Char) else a[0]
            return s.replace(frm, a[1])
        if name == 'starts_with':
            return s.startswith(a[0].c if isinstance(a[0], Char) else a[0])
        if name == 'ends_with':
            return s.endswith(a[0].c if isinstance(a[0], Char) else a[0])
        if name == 'contains':
            return (a[0].c if isinstance(a[0], Char) else a[0]) in s
        if name == 'trim':
            return s.strip()
        if name == 'parse':
            ty = None
            if tf:
                ty = norm_ty(tf[0])
            elif hint:
                head, gs = split_generic(hint)
                ty = norm_ty(gs[0]) if head == 'Result' and gs else norm_ty(hint)
            if ty in INT_RANGES:
                return self.parse_int(s, 10, ty)
            if ty in FLOAT_TYPES:
                try:
                    return Res(float(s), True)
                except ValueError:
                    return Res('invalid float', False)
            raise Unanalysable('parse::<%s> (line %s)' % (ty, ln))
        if name == 'get':
            r = a[0]
            if isinstance(r, RangeV):
                b = s.encode('utf-8')
                lo = 0 if r.lo is None else r.lo
                hi = len(b) if r.hi is None else (r.hi + 1 if r.incl else r.hi)
                if lo > hi or hi > len(b) or not is_char_boundary(b, lo) or not is_char_boundary(b, hi):
                    return NONE
                return Opt(b[lo:hi].decode('utf-8'))
            raise Unanalysable('str::get arg')
        if name in ('eq', 'ne'):
            r = (s == a[0])
            return r if name == 'eq' else not r
        if name == 'push_str':
            raise Unanalysable('push_str needs place semantics')
        if name == 'repeat':
            return s * as_num(a[0])
        if name == 'char_indices':
            out, off = [], 0
            for c in s:
                out.append((RInt(off, 'usize'), Char(c)))
                off += len(c.encode('utf-8'))
            return Iter(out)
        if name == 'strip_prefix':
            return Opt(s[len(a[0]):]) if s.startswith(a[0]) else NONE
        if name == 'strip_suffix':
            return Opt(s[:-len(a[0])]) if a[0] and s.endswith(a[0]) else NONE
        if name == 'split_at':
            i = as_num(a[0])
            return (utf8_slice(s, 0, i), utf8_slice(s, i, None))
        if name == 'lines':
            return Iter(s.split('\n'))
        if name == 'rfind':
            pat = a[0].c if isinstance(a[0], Char) else a[0]
            i = s.rfind(pat)
            return NONE if i < 0 else Opt(RInt(len(s[:i].encode('utf-8')), 'usize'))
        if name == 'matches':
            pat = a[0].c if isinstance(a[0], Char) else a[0]
            return Iter([pat] * s.count(pat))
        if name == 'is_char_boundary':
            return is_char_boundary(s.encode('utf-8'), as_num(a[0]))
        if name == 'to_uppercase':
            return s.upper()
        if name == 'to_lowercase':
            return s.lower()
        raise Unanalysable('str method %s (line %s)' % (name, ln))

    def m_Char(self, c, name, a, hint, tf, ln):
        if name == 'to_string':
            return c.c
        if name == 'to_digit':
            r = as_num(a[0])
            d = '0123456789abcdefghijklmnopqrstuvwxyz'.find(c.c.lower())
            if d < 0 or d >= r:
                return NONE
            return Opt(RInt(d, 'u32'))
        if name in ('is_alphabetic', 'is_ascii_alphabetic'):
            return c.c.isalpha()
        if name in ('is_ascii_hexdigit',):
            return c.c in '0123456789abcdefABCDEF'
        if name == 'len_utf8':
            return RInt(len(c.c.encode('utf-8')), 'usize')
        if name == 'is_ascii_digit' or name == 'is_numeric':
            return c.c.isdigit()
        if name in ('clone',):
            return c
        if name == 'eq':
            return c == a[0]
        raise Unanalysable('char method %s' % name)

    def m_bool(self, b, name, a, hint, tf, ln):
        if name in ('clone',):
            return b
        if name == 'to_string':
            return self.display(b)
        if name == 'then_some':
            return Opt(a[0]) if b else NONE
        if name == 'then':
            return Opt(self.call_value(a[0], [])) if b else NONE
        raise Unanalysable('bool method %s' % name)

    def m_RInt(self, x, name, a, hint, tf, ln):
        t = x.t
        if name in ('clone', 'into', 'to_owned', 'borrow'):
            return x
        if name == 'to_string':
            return str(x.v)
        if name == 'abs':
            return self.coerce(RInt(abs(x.v), t), t)
        if name == 'min':
            return RInt(min(x.v, as_num(a[0])), t or a[0].t)
        if name == 'max':
            return RInt(max(x.v, as_num(a[0])), t or a[0].t)
        if name == 'pow':
            return self.coerce(RInt(x.v ** as_num(a[0]), t), t)
        if name == 'rem_euclid':
            b = as_num(a[0])
            if b == 0:
                raise Bottom('rem_euclid by zero', ln)
            return RInt(x.v % abs(b), t)
        if name == 'div_euclid':
            b = as_num(a[0])
            if b == 0:
                raise Bottom('div_euclid by zero', ln)
            r = x.v % abs(b)
            return RInt((x.v - r) // b, t)
        if name == 'signum':
            return RInt((x.v > 0) - (x.v < 0), t)
        if name == 'unsigned_abs':
            return RInt(abs(x.v), 'usize' if t == 'isize' else None)
        if name in ('eq', 'ne'):
            r = x.v == as_num(a[0])
            return r if name == 'eq' else not r
        if name in ('wrapping_add', 'wrapping_sub', 'wrapping_mul'):
            v = {'wrapping_add': x.v + as_num(a[0]), 'wrapping_sub': x.v - as_num(a[0]), 'wrapping_mul': x.v * as_num(a[0])}[name]
            if t:
                lo, hi = INT_RANGES[t]
                v = (v - lo) % (hi - lo + 1) + lo
            return RInt(v, t)
        if name in ('checked_sub', 'checked_add', 'checked_mul', 'checked_div', 'checked_rem'):
            try:
                return Opt(self.arith({'checked_sub': '-', 'checked_add': '+', 'checked_mul': '*', 'checked_div': '/', 'checked_rem': '%'}[name], x, a[0], {}))
            except Bottom:
                return NONE
        if name in ('saturating_sub', 'saturating_add'):
            v = x.v - as_num(a[0]) if name == 'saturating_sub' else x.v + as_num(a[0])
            if t:
                lo, hi = INT_RANGES[t]
                v = max(lo, min(hi, v))
            return RInt(v, t)
        if name == 'abs_diff':
            return RInt(abs(x.v - as_num(a[0])), 'usize' if t in ('isize', 'usize') else t)
        if name == 'try_into':
            ty = None
            if tf:
                ty = norm_ty(tf[0])
            elif hint:
                head, gs = split_generic(hint)
                ty = norm_ty(gs[0]) if head == 'Result' and gs else norm_ty(hint)
            if ty in INT_RANGES:
                lo, hi = INT_RANGES[ty]
                if lo <= x.v <= hi:
                    return Res(RInt(x.v, ty), True)
                return Res('out of range integral type conversion attempted', False)
            raise Unanalysable('integer try_into needs the target type (line %s)' % ln)
        if name == 'leading_zeros' or name == 'count_ones':
            raise Unanalysable('bit counting')
        if name == 'is_positive':
            return x.v > 0
        if name == 'is_negative':
            return x.v < 0
        if name == 'cmp':
            o = as_num(a[0])
            return EV('Ordering', 'Less' if x.v < o else ('Greater' if x.v > o else 'Equal'))
        if name == 'partial_cmp':
            o = as_num(a[0])
            return Opt(EV('Ordering', 'Less' if x.v < o else ('Greater' if x.v > o else 'Equal')))
        if name == 'clamp':
            return RInt(max(as_num(a[0]), min(as_num(a[1]), x.v)), t)
        raise Unanalysable('int method %s (line %s)' % (name, ln))

    def m_float(self, x, name, a, hint, tf, ln):
        try:
            if name == 'floor':
                return float(math.floor(x)) if math.isfinite(x) else x
            if name == 'ceil':
                return float(math.ceil(x)) if math.isfinite(x) else x
            if name == 'round':
                if not math.isfinite(x):
                    return x
                return float(math.floor(abs(x) + 0.5)) * (1.0 if x >= 0 else -1.0)
            if name == 'trunc':
                return float(int(x)) if math.isfinite(x) else x
            if name == 'fract':
                return x - float(int(x))
            if name == 'abs':
                return abs(x)
            if name == 'sin':
                return math.sin(x)
            if name == 'cos':
                return math.cos(x)
            if name == 'tan':
                return math.tan(x)
            if name == 'asin':
                return math.asin(x)
            if name == 'acos':
                return math.acos(x)
            if name == 'atan':
                return math.atan(x)
            if name == 'atan2':
                return math.atan2(x, as_num(a[0]))
            if name == 'sqrt':
                return math.sqrt(x) if x >= 0 else float('nan')
            if name == 'powi':
                return x ** as_num(a[0])
            if name == 'powf':
                return x ** float(as_num(a[0]))
            if name == 'exp':
                return math.exp(x)
            if name == 'ln':
                return math.log(x)
            if name == 'min':
                return min(x, float(as_num(a[0])))
            if name == 'max':
                return max(x, float(as_num(a[0])))
            if name == 'rem_euclid':
                b = float(as_num(a[0]))
                r = math.fmod(x, b)
                return r + abs(b) if r < 0 else r
            if name == 'signum':
                return math.copysign(1.0, x)
            if name == 'to_radians':
                return x * (math.pi / 180.0)
            if name == 'to_degrees':
                return x * (180.0 / math.pi)
        except (ValueError, OverflowError):
            return float('nan')
        if name in ('clone', 'into'):
            return x
        if name == 'to_string':
            return fmt_float(x)
        if name == 'is_nan':
            return x != x
        raise Unanalysable('float method %s (line %s)' % (name, ln))

    def m_list(self, l, name, a, hint, tf, ln):
        if name in ('iter', 'into_iter', 'iter_mut'):
            return Iter(l)
        if name == 'len':
            return RInt(len(l), 'usize')
        if name == 'is_empty':
            return len(l) == 0
        if name in ('to_vec', 'clone', 'to_owned'):
            if l and isinstance(l[0], (str, RInt, float)):
                return list(l)
            return [deep_copy(x) for x in l]
        if name in ('as_slice', 'as_ref', 'borrow', 'into', 'deref', 'as_mut_slice'):
            return l
        if name == 'push':
            l.append(a[0])
            return UNIT
        if name == 'pop':
            return Opt(l.pop()) if l else NONE
        if name == 'insert':
            i = as_num(a[0])
            if i > len(l):
                raise Bottom('Vec::insert out of bounds', ln)
            l.insert(i, a[1])
            return UNIT
        if name == 'remove':
            i = as_num(a[0])
            if i >= len(l):
                raise Bottom('Vec::remove out of bounds', ln)
            return l.pop(i)
        if name == 'clear':
            del l[:]
            return UNIT
        if name == 'get':
            if isinstance(a[0], RangeV):
                try:
                    return Opt(self.index(l, a[0]))
                except Bottom:
                    return NONE
            i = as_num(a[0])
            return Opt(l[i]) if 0 <= i < len(l) else NONE
        if name == 'first':
            return Opt(l[0]) if l else NONE
        if name == 'last':
            return Opt(l[-1]) if l else NONE
        if name == 'contains':
            if isinstance(a[0], RInt):
                v = a[0].v
                for x in l:
                    if isinstance(x, RInt):
                        if x.v == v:
                            return True
                    elif self.values_equal(x, a[0]):
                        return True
                return False
            return any(self.values_equal(x, a[0]) for x in l)
        if name == 'join':
            return a[0].join(self.display(x) for x in l)
        if name == 'concat':
            return ''.join(l)
        if name == 'extend':
            l.extend(self.iterate(a[0]))
            return UNIT
        if name == 'reverse':
            l.reverse()
            return UNIT
        if name == 'sort':
            l.sort(key=self.ordkey)
            return UNIT
        if name == 'sort_by_key':
            l.sort(key=lambda x: self.ordkey(self.call_value(a[0], [x])))
            return UNIT
        if name == 'sort_by':
            import functools

            def cmpf(x, y):
                r = self.call_value(a[0], [x, y])
                return {'Less': -1, 'Equal': 0, 'Greater': 1}[r.var]
            l.sort(key=functools.cmp_to_key(cmpf))
            return UNIT
        if name == 'dedup':
            out = []
            for x in l:
                if not out or not self.values_equal(out[-1], x):
                    out.append(x)
            l[:] = out
            return UNIT
        if name == 'iter().rev':
            return Iter(l[::-1])
        if name == 'swap':
            i, j = as_num(a[0]), as_num(a[1])
            l[i], l[j] = l[j], l[i]
            return UNIT
        if name == 'truncate':
            del l[as_num(a[0]):]
            return UNIT
        if name == 'eq':
            return self.values_equal(l, a[0])
        if name == 'binary_search':
            key = self.ordkey(a[0])
            lo, hi = 0, len(l)
            while lo < hi:
                mid = (lo + hi) // 2
                k = self.ordkey(l[mid])
                if k == key:
                    return Res(RInt(mid, 'usize'), True)
                if k < key:
                    lo = mid + 1
                else:
                    hi = mid
            return Res(RInt(lo, 'usize'), False)
        if name == 'windows':
            n = as_num(a[0])
            return Iter([l[i:i + n] for i in range(0, len(l) - n + 1)])
        if name in ('chunks', 'chunks_exact'):
            n = as_num(a[0])
            out = [l[i:i + n] for i in range(0, len(l), n)]
            if name == 'chunks_exact' and out and len(out[-1]) < n:
                out.pop()
            return Iter(out)
        if name == 'split_first':
            return Opt((l[0], l[1:])) if l else NONE
        if name == 'split_last':
            return Opt((l[-1], l[:-1])) if l else NONE
        if name == 'starts_with':
            return len(l) >= len(a[0]) and all(self.values_equal(x, y) for x, y in zip(l, a[0]))
        if name == 'retain':
            l[:] = [x for x in l if self.call_value(a[0], [x])]
            return UNIT
        if name == 'drain':
            out = list(l)
            del l[:]
            return Iter(out)
        if name == 'iter_rev':
            return Iter(l[::-1])
        if name == 'resize':
            n = as_num(a[0])
            while len(l) < n:
                l.append(deep_copy(a[1]))
            del l[n:]
            return UNIT
        raise Unanalysable('Vec method %s (line %s)' % (name, ln))

    def m_Iter(self, it, name, a, hint, tf, ln):
        rest = it.items[it.pos:]
        if name in ('iter', 'into_iter', 'by_ref', 'cloned', 'copied', 'peekable'):
            return it
        if name == 'map':
            f = a[0]
            if isinstance(f, Closure) and len(f.params) == 1 and f.params[0]['k'] == 'pident' and f.body['k'] == 'mcall' \
                    and not f.body['args'] and f.body['recv']['k'] == 'path' and f.body['recv']['segs'] == [f.params[0]['name']]:
                mname = f.body['m']
                if mname in ('to_string', 'clone', 'to_owned') and all(isinstance(x, str) for x in rest):
                    return Iter(rest)
                return Iter([self.mcall(x, mname, [], None, None) for x in rest])
            return Iter([self.call_value(f, [x]) for x in rest])
        if name == 'filter':
            return Iter([x for x in rest if self.call_value(a[0], [x])])
        if name == 'filter_map':
            out = []
            for x in rest:
                r = self.call_value(a[0], [x])
                if r.some:
                    out.append(r.v)
            return Iter(out)
        if name == 'enumerate':
            return Iter([(RInt(i, 'usize'), x) for i, x in enumerate(rest)])
        if name == 'rev':
            return Iter(rest[::-1])
        if name == 'step_by':
            n = as_num(a[0])
            if n == 0:
                raise Bottom('step_by(0)', ln)
            return Iter(rest[::n])
        if name == 'skip':
            return Iter(rest[as_num(a[0]):])
        if name == 'take':
            return Iter(rest[:as_num(a[0])])
        if name == 'zip':
            return Iter(list(zip(rest, self.iterate(a[0]))))
        if name == 'chain':
            return Iter(rest + self.iterate(a[0]))
        if name == 'collect':
            ty = None
            if tf:
                ty = tf[0]
            elif hint:
                ty = hint
            head, gs = split_generic(ty) if ty else (None, [])
            if head == 'String':
                return ''.join(self.display(x) for x in rest)
            if head in ('HashMap', 'BTreeMap'):
                return dict((hkey(k), (k, v)) for k, v in rest)
            return list(rest)
        if name == 'count':
            return RInt(len(rest), 'usize')
        if name == 'sum':
            s = 0
            fl = False
            for x in rest:
                if isinstance(x, float):
                    fl = True
                s += as_num(x)
            return float(s) if fl else RInt(s, rest[0].t if rest and isinstance(rest[0], RInt) else None)
        if name == 'nth':
            i = as_num(a[0])
            if i < len(rest):
                it.pos += i + 1
                return Opt(rest[i])
            it.pos = len(it.items)
            return NONE
        if name == 'next':
            if rest:
                it.pos += 1
                return Opt(rest[0])
            return NONE
        if name == 'last':
            return Opt(rest[-1]) if rest else NONE
        if name == 'find':
            for x in rest:
                if self.call_value(a[0], [x]):
                    return Opt(x)
            return NONE
        if name == 'position':
            for i, x in enumerate(rest):
                if self.call_value(a[0], [x]):
                    return Opt(RInt(i, 'usize'))
            return NONE
        if name == 'any':
            return any(self.call_value(a[0], [x]) for x in rest)
        if name == 'all':
            return all(self.call_value(a[0], [x]) for x in rest)
        if name == 'min' or name == 'max':
            if not rest:
                return NONE
            f = min if name == 'min' else max
            return Opt(f(rest, key=self.ordkey))
        if name == 'product':
            s = 1
            for x in rest:
                s *= as_num(x)
            return RInt(s, rest[0].t if rest and isinstance(rest[0], RInt) else None) if not any(isinstance(x, float) for x in rest) else float(s)
        if name in ('min_by_key', 'max_by_key'):
            if not rest:
                return NONE
            f = min if name == 'min_by_key' else max
            keyed = [(self.ordkey(self.call_value(a[0], [x])), i) for i, x in enumerate(rest)]
            if name == 'max_by_key':
                best = max(keyed, key=lambda k: (k[0], k[1]))
            else:
                best = min(keyed, key=lambda k: (k[0], k[1]))
            return Opt(rest[best[1]])
        if name == 'flat_map':
            out = []
            for x in rest:
                out.extend(self.iterate(self.call_value(a[0], [x])))
            return Iter(out)
        if name == 'flatten':
            out = []
            for x in rest:
                out.extend(self.iterate(x))
            return Iter(out)
        if name == 'take_while':
            out = []
            for x in rest:
                if not self.call_value(a[0], [x]):
                    break
                out.append(x)
            return Iter(out)
        if name == 'skip_while':
            i = 0
            while i < len(rest) and self.call_value(a[0], [rest[i]]):
                i += 1
            return Iter(rest[i:])
        if name == 'map_while':
            out = []
            for x in rest:
                r = self.call_value(a[0], [x])
                if not r.some:
                    break
                out.append(r.v)
            return Iter(out)
        if name == 'find_map':
            for x in rest:
                r = self.call_value(a[0], [x])
                if r.some:
                    return r
            return NONE
        if name == 'rposition':
            for i in range(len(rest) - 1, -1, -1):
                if self.call_value(a[0], [rest[i]]):
                    return Opt(RInt(i, 'usize'))
            return NONE
        if name == 'unzip':
            return ([x[0] for x in rest], [x[1] for x in rest])
        if name == 'inspect':
            return it
        if name == 'scan':
            raise Unanalysable('Iterator::scan')
        if name == 'try_fold':
            raise Unanalysable('Iterator::try_fold')
        if name == 'for_each':
            for x in rest:
                self.call_value(a[0], [x])
            return UNIT
        if name == 'fold':
            acc = a[0]
            for x in rest:
                acc = self.call_value(a[1], [acc, x])
            return acc
        raise Unanalysable('iterator method %s (line %s)' % (name, ln))

    def m_RangeV(self, r, name, a, hint, tf, ln):
        if name == 'contains':
            x = as_num(a[0])
            if r.lo is not None and x < r.lo:
                return False
            if r.hi is not None:
                return x <= r.hi if r.incl else x < r.hi
            return True
        if name == 'len':
            return RInt(len(r.to_list()), 'usize')
        return self.m_Iter(Iter(r.to_list()), name, a, hint, tf, ln)

    def m_Opt(self, o, name, a, hint, tf, ln):
        if name == 'unwrap' or name == 'expect':
            if not o.some:
                raise Bottom('unwrap on None', ln)
            return o.v
        if name == 'is_none':
            return not o.some
        if name == 'is_some':
            return o.some
        if name == 'unwrap_or':
            return o.v if o.some else a[0]
        if name == 'unwrap_or_default':
            if o.some:
                return o.v
            raise Unanalysable('unwrap_or_default')
        if name == 'unwrap_or_else':
            return o.v if o.some else self.call_value(a[0], [])
        if name == 'map':
            return Opt(self.call_value(a[0], [o.v])) if o.some else NONE
        if name == 'and_then':
            return self.call_value(a[0], [o.v]) if o.some else NONE
        if name == 'map_or':
            return self.call_value(a[1], [o.v]) if o.some else a[0]
        if name == 'map_or_else':
            return self.call_value(a[1], [o.v]) if o.some else self.call_value(a[0], [])
        if name == 'is_some_and':
            return o.some and bool(self.call_value(a[0], [o.v]))
        if name == 'is_none_or':
            return (not o.some) or bool(self.call_value(a[0], [o.v]))
        if name == 'or_else':
            return o if o.some else self.call_value(a[0], [])
        if name == 'xor':
            return o if (o.some and not a[0].some) else (a[0] if (a[0].some and not o.some) else NONE)
        if name == 'zip':
            return Opt((o.v, a[0].v)) if (o.some and a[0].some) else NONE
        if name == 'into_iter':
            return Iter([o.v] if o.some else [])
        if name == 'contains':
            return o.some and self.values_equal(o.v, a[0])
        if name in ('clone', 'as_ref', 'as_mut', 'cloned', 'copied', 'as_deref', 'borrow', 'iter', 'into'):
            return Opt(deep_copy(o.v)) if (o.some and name == 'clone') else o
        if name == 'ok_or':
            return Res(o.v, True) if o.some else Res(a[0], False)
        if name == 'ok_or_else':
            return Res(o.v, True) if o.some else Res(self.call_value(a[0], []), False)
        if name == 'take':
            raise Unanalysable('Option::take')
        if name in ('eq', 'ne'):
            r = self.values_equal(o, a[0])
            return r if name == 'eq' else not r
        if name == 'or':
            return o if o.some else a[0]
        if name == 'filter':
            return o if (o.some and self.call_value(a[0], [o.v])) else NONE
        raise Unanalysable('Option method %s (line %s)' % (name, ln))

    def m_Res(self, r, name, a, hint, tf, ln):
        if name == 'unwrap' or name == 'expect':
            if not r.ok:
                raise Bottom('unwrap on Err(%s)' % (r.v if isinstance(r.v, str) else '..'), ln)
            return r.v
        if name == 'unwrap_err':
            if r.ok:
                raise Bottom('unwrap_err on Ok', ln)
            return r.v
        if name == 'is_ok':
            return r.ok
        if name == 'is_err':
            return not r.ok
        if name == 'ok':
            return Opt(r.v) if r.ok else NONE
        if name == 'err':
            return Opt(r.v) if not r.ok else NONE
        if name == 'unwrap_or':
            return r.v if r.ok else a[0]
        if name == 'unwrap_or_else':
            return r.v if r.ok else self.call_value(a[0], [r.v])
        if name == 'map':
            return Res(self.call_value(a[0], [r.v]), True) if r.ok else r
        if name == 'map_err':
            return r if r.ok else Res(self.call_value(a[0], [r.v]), False)
        if name == 'and_then':
            return self.call_value(a[0], [r.v]) if r.ok else r
        if name in ('clone', 'as_ref'):
            return r
        if name == 'map_or':
            return self.call_value(a[1], [r.v]) if r.ok else a[0]
        if name == 'map_or_else':
            return self.call_value(a[1], [r.v]) if r.ok else self.call_value(a[0], [r.v])
        if name == 'is_ok_and':
            return r.ok and bool(self.call_value(a[0], [r.v]))
        if name == 'or_else':
            return r if r.ok else self.call_value(a[0], [r.v])
        if name == 'unwrap_or_default':
            if r.ok:
                return r.v
            raise Unanalysable('unwrap_or_default')
        raise Unanalysable('Result method %s (line %s)' % (name, ln))

    def m_dict(self, d, name, a, hint, tf, ln):
        if name == 'insert':
            k = hkey(a[0])
            old = d.get(k)
            d[k] = (a[0], a[1])
            return Opt(old[1]) if old else NONE
        if name == 'get':
            k = hkey(a[0])
            return Opt(d[k][1]) if k in d else NONE
        if name == 'contains_key':
            return hkey(a[0]) in d
        if name == 'remove':
            k = hkey(a[0])
            return Opt(d.pop(k)[1]) if k in d else NONE
        if name in ('iter', 'into_iter'):
            return Iter([(kv[0], kv[1]) for kv in d.values()])
        if name == 'keys':
            return Iter([kv[0] for kv in d.values()])
        if name == 'values':
            return Iter([kv[1] for kv in d.values()])
        if name == 'len':
            return RInt(len(d), 'usize')
        if name == 'is_empty':
            return len(d) == 0
        if name == 'clear':
            d.clear()
            return UNIT
        if name == 'clone':
            return dict(d)
        if name == 'entry':
            return EntryV(d, a[0])
        if name == 'get_mut':
            k = hkey(a[0])
            return Opt(d[k][1]) if k in d else NONE
        if name == 'get_or_insert_with':
            raise Unanalysable('HashMap::get_or_insert_with')
        raise Unanalysable('HashMap method %s (line %s)' % (name, ln))

    def m_EntryV(self, en, name, a, hint, tf, ln):
        k = hkey(en.key)
        if name in ('or_insert', 'or_insert_with', 'or_default'):
            if k not in en.d:
                if name == 'or_insert':
                    v = a[0]
                elif name == 'or_insert_with':
                    v = self.call_value(a[0], [])
                else:
                    raise Unanalysable('or_default')
                en.d[k] = (en.key, v)
            return en.d[k][1]
        raise Unanalysable('Entry method %s' % name)

    def m_CellV(self, c, name, a, hint, tf, ln):
        if name in ('borrow', 'borrow_mut', 'get', 'get_mut', 'into_inner'):
            return c.v
        if name == 'replace':
            old = c.v
            c.v = a[0]
            return old
        if name == 'set':
            c.v = a[0]
            return UNIT
        if name in ('lock', 'try_lock'):
            # sequential evaluation: the mutex is free and unpoisoned (contention / poisoning are C10's effect rules, not a value question)
            return Res(c.v, True)
        if name == 'clone':
            return CellV(deep_copy(c.v), c.kind)
        raise Unanalysable('cell method %s (line %s)' % (name, ln))

    def m_RegexV(self, r, name, a, hint, tf, ln):
        s = a[0]
        if not isinstance(s, str):
            raise Unanalysable('regex haystack')
        if name == 'is_match':
            return r.rx.search(s) is not None
        if name == 'find':
            m = r.rx.search(s)
            return Opt(MatchV(m)) if m else NONE
        if name == 'captures':
            m = r.rx.search(s)
            return Opt(MatchV(m)) if m else NONE
        if name == 'find_iter' or name == 'captures_iter':
            return Iter([MatchV(m) for m in r.rx.finditer(s)])
        if name == 'replace_all':
            return r.rx.sub(a[1].replace('\\', '\\\\'), s)
        raise Unanalysable('regex method %s' % name)

    def m_MatchV(self, m, name, a, hint, tf, ln):
        if name == 'as_str':
            return m.m.group(0)
        if name == 'get':
            i = as_num(a[0])
            if i > (m.m.re.groups) or m.m.group(i) is None:
                return NONE
            mm = m.m
            return Opt(PyGroup(mm, i))
        if name == 'start':
            return RInt(len(m.m.string[:m.m.start()].encode('utf-8')), 'usize')
        if name == 'end':
            return RInt(len(m.m.string[:m.m.end()].encode('utf-8')), 'usize')
        raise Unanalysable('match method %s' % name)

    def m_PyGroup(self, g, name, a, hint, tf, ln):
        if name == 'as_str':
            return g.m.group(g.i)
        if name == 'start':
            return RInt(len(g.m.string[:g.m.start(g.i)].encode('utf-8')), 'usize')
        if name == 'end':
            return RInt(len(g.m.string[:g.m.end(g.i)].encode('utf-8')), 'usize')
        raise Unanalysable('group method %s' % name)

    def m_tuple(self, t, name, a, hint, tf, ln):
        if name == 'clone':
            return t
        if name == 'eq':
            return self.values_equal(t, a[0])
        if name == 'ne':
            return not self.values_equal(t, a[0])
        if name == 'into':
            return t
        if name in ('cmp', 'partial_cmp'):
            x, y = self.ordkey(t), self.ordkey(a[0])
            r = EV('Ordering', 'Less' if x < y else ('Greater' if x > y else 'Equal'))
            return r if name == 'cmp' else Opt(r)
        if name in ('lt', 'le', 'gt', 'ge'):
            x, y = self.ordkey(t), self.ordkey(a[0])
            return {'lt': x < y, 'le': x <= y, 'gt': x > y, 'ge': x >= y}[name]
        raise Unanalysable('tuple method %s' % name)

    def m_Formatter(self, f, name, a, hint, tf, ln):
        if name == 'write_str':
            f.buf += a[0]
            return Res(UNIT, True)
        raise Unanalysable('formatter method %s' % name)

    def m_Closure(self, c, name, a, hint, tf, ln):
        raise Unanalysable('closure method %s' % name)


class EntryV(object):
    __slots__ = ('d', 'key')

    def __init__(self, d, key):
        self.d = d
        self.key = key


class PyGroup(object):
    __slots__ = ('m', 'i')

    def __init__(self, m, i):
        self.m = m
        self.i = i


class Frame(object):
    __slots__ = ('interp', 'self_ty', 'fname', 'vars', 'types', 'ret_hint', 'file')

    def __init__(self, interp, self_ty, fname, file=None):
        self.interp = interp
        self.self_ty = self_ty
        self.fname = fname
        self.file = file
        self.vars = [{}]
        self.types = {}
        self.ret_hint = None

    def push(self):
        self.vars.append({})

    def pop(self):
        self.vars.pop()

    def has(self, n):
        for s in reversed(self.vars):
            if n in s:
                return True
        return False

    def lookup(self, n, default=KeyError):
        for s in reversed(self.vars):
            if n in s:
                return s[n]
        if default is KeyError:
            raise Unanalysable('unbound variable %s in %s' % (n, self.fname))
        return default

    def set(self, n, v):
        for s in reversed(self.vars):
            if n in s:
                s[n] = v
                return
        raise Unanalysable('assignment to unbound %s' % n)


def as_num(v):
    if isinstance(v, RInt):
        return v.v
    if isinstance(v, bool):
        raise Unanalysable('bool used as number')
    if isinstance(v, (int, float)):
        return v
    raise Unanalysable('number expected, got %s' % type(v).__name__)


def hkey(v):
    if isinstance(v, RInt):
        return ('i', v.v)
    if isinstance(v, str):
        return ('s', v)
    if isinstance(v, tuple):
        return tuple(hkey(x) for x in v)
    if isinstance(v, (bool, Char, EV)):
        return v
    raise Unanalysable('hash key %s' % type(v).__name__)


def wrap(a):
    """python value -> interpreter value"""
    if isinstance(a, bool):
        return a
    if isinstance(a, int):
        return RInt(a)
    if isinstance(a, list):
        return [wrap(x) for x in a]
    return a


def deep_copy(v):
    if isinstance(v, SV):
        return SV(v.ty, dict((k, deep_copy(x)) for k, x in v.f.items()))
    if isinstance(v, list):
        return [deep_copy(x) for x in v]
    if isinstance(v, CellV):
        return CellV(deep_copy(v.v), v.kind)
    if isinstance(v, Opt):
        return Opt(deep_copy(v.v), True) if v.some else v
    if isinstance(v, dict):
        return dict((k, (kv[0], deep_copy(kv[1]))) for k, kv in v.items())
    return v


def py(v):
    """interpreter value -> plain python (for oracles / reports)"""
    if isinstance(v, RInt):
        return v.v
    if isinstance(v, Char):
        return v.c
    if isinstance(v, list):
        return [py(x) for x in v]
    if isinstance(v, tuple):
        return tuple(py(x) for x in v)
    if isinstance(v, Opt):
        return py(v.v) if v.some else None
    if isinstance(v, Res):
        return ('Ok', py(v.v)) if v.ok else ('Err', py(v.v))
    if isinstance(v, SV):
        return {'$ty': v.ty, **dict((k, py(x)) for k, x in v.f.items())}
    if isinstance(v, EV):
        return '%s::%s' % (v.ty, v.var)
    if isinstance(v, CellV):
        return py(v.v)
    if isinstance(v, Iter):
        return [py(x) for x in v.items[v.pos:]]
    return v
