"""Check context: obligations, violations, known findings, evidence and report writers."""
import json
import os
import re
import sys
import time
import traceback

import facts
from prog import Program
from pete import Interp, Bottom, Unanalysable

VERIF = facts.VERIF
KNOWN = os.path.join(VERIF, 'known_findings.txt')


def load_known():
    """returns {(property, key): text} for open findings; 'fixed:' lines suppress nothing"""
    out = {}
    if not os.path.exists(KNOWN):
        return out
    for line in open(KNOWN, encoding='utf-8'):
        line = line.strip()
        if not line or line.startswith('#') or line.startswith('fixed:'):
            continue
        m = re.match(r'^property=(C\d+)\s+key=(\S+)\s+(.*)$', line)
        if m:
            out[(m.group(1), m.group(2))] = m.group(3)
    return out


class Ctx(object):
    def __init__(self, pid, tier='quick', seed=0):
        self.pid = pid
        self.tier = tier
        self.seed = seed
        self.t0 = time.time()
        self.obligations = 0
        self.discharged = 0
        self.evaluations = 0
        self.violations = []      # (key, rule, message, detail)
        self.samples = []
        self.rules = {}           # rule name -> {'instances': n, 'points': n, 'what': str}
        self.assumptions = []
        self.not_decided = []
        self.notes = []
        self._prog = None
        self._mir = None
        self._src_hash = None
        self.fail_closed = []     # UNANALYSABLE / floor failures: (key, message)
        self._included = set()
        self._shared_samples = []
        self.exhaustive = True    # rules set this to False when a domain is sampled rather than enumerated completely
        self.exhaustive_note = ''

    # ---- facts
    @property
    def prog(self):
        if self._prog is None:
            path, h = facts.src_facts()
            self._src_hash = h
            self._prog = Program.load(path)
        return self._prog

    @property
    def mir(self):
        if self._mir is None:
            path, h = facts.mir_facts()
            with open(path) as fh:
                self._mir = json.load(fh)
        return self._mir

    def interp(self, fuel=3000000):
        import policy
        I = Interp(self.prog, fuel=fuel)
        policy.apply(I)
        return I

    # ---- recording
    def rule(self, name, what):
        self.rules.setdefault(name, {'instances': 0, 'points': 0, 'what': what})

    def ok(self, rule, n_points=1, sample=None):
        """one rule instance discharged, having examined n_points cases"""
        self.obligations += 1
        self.discharged += 1
        self.evaluations += n_points
        r = self.rules.setdefault(rule, {'instances': 0, 'points': 0, 'what': ''})
        r['instances'] += 1
        r['points'] += n_points
        if sample is not None and len(self.samples) < 40:
            self.samples.append(sample)

    def violation(self, rule, key, message, detail=None, n_points=1):
        self.obligations += 1
        self.evaluations += n_points
        r = self.rules.setdefault(rule, {'instances': 0, 'points': 0, 'what': ''})
        r['instances'] += 1
        r['points'] += n_points
        self.violations.append((key, rule, message, detail or {}))

    def unanalysable(self, rule, key, message):
        self.obligations += 1
        self.fail_closed.append((key, rule, 'UNANALYSABLE: ' + message))

    def floor(self, rule, what, count, floor):
        """fail closed when fewer instances than the hand-confirmed floor are found"""
        if count < floor:
            self.obligations += 1
            self.fail_closed.append(('FLOOR:%s:%s' % (rule, what), rule,
                                     'floor failure: %s found %d < %d (anchor missing or renamed)' % (what, count, floor)))
            return False
        return True

    def guard(self, rule, key, fn, n_points=1, sample=None):
        """run fn(); it returns None/True for OK or a string (violation message) / (message, detail)"""
        try:
            r = fn()
        except Unanalysable as u:
            self.unanalysable(rule, key, str(u))
            return False
        except Bottom as b:
            self.violation(rule, key, 'evaluated code panics: %s (line %s)' % (b.reason, b.ln))
            return False
        if r is None or r is True:
            self.ok(rule, n_points, sample)
            return True
        if isinstance(r, tuple):
            self.violation(rule, key, r[0], r[1], n_points)
        else:
            self.violation(rule, key, str(r), None, n_points)
        return False

    # ---- shared sub-rules (computed once per source hash, merged into every property that includes them)
    def include(self, name, fn):
        """run fn(sub_ctx) once per tree hash; merge its obligations into this check. The cached record is keyed by the
        hash of /repo's sources (and the extractor binaries), so it is only ever reused for byte-identical sources."""
        if name in self._included:
            return
        self._included.add(name)
        _ = self.prog  # forces fact extraction -> hash
        d = os.path.join(facts.CACHE, self._src_hash)
        path = os.path.join(d, 'shared-%s-%s-%s.json' % (name, self.tier, facts.checker_hash()))
        rec = None
        with facts.Lock(os.path.join(facts.CACHE, 'lock.shared-%s' % name)):
            if os.path.exists(path):
                try:
                    with open(path, encoding='utf-8') as fh:
                        rec = json.load(fh)
                except (OSError, ValueError):
                    rec = None
            if rec is None:
                sub = Ctx(self.pid, self.tier, self.seed)
                sub._prog, sub._src_hash, sub._mir = self._prog, self._src_hash, self._mir
                t0 = time.time()
                import pete as _p
                cov0 = set(_p.COVER)
                try:
                    fn(sub)
                except Exception as ex:
                    traceback.print_exc()
                    sub.fail_closed.append(('CHECKER-ERROR:%s' % name, 'internal', 'shared rule %s crashed: %r' % (name, ex)))
                rec = {'rules': sub.rules, 'violations': [list(v[:3]) + [v[3]] for v in sub.violations], 'fail_closed': [list(f) for f in sub.fail_closed],
                       'obligations': sub.obligations, 'discharged': sub.discharged, 'evaluations': sub.evaluations, 'samples': sub.samples[:6],
                       'assumptions': sub.assumptions, 'not_decided': sub.not_decided, 'wall_s': time.time() - t0, 'functions_evaluated': sorted(_p.COVER - cov0)}
                os.makedirs(d, exist_ok=True)
                tmp = path + '.tmp%d' % os.getpid()
                with open(tmp, 'w', encoding='utf-8') as fh:
                    json.dump(rec, fh, ensure_ascii=False, default=str)
                os.rename(tmp, path)
        import pete as _p2
        _p2.COVER.update(rec.get('functions_evaluated', []))
        for k, r in rec['rules'].items():
            cur = self.rules.setdefault(k, {'instances': 0, 'points': 0, 'what': r.get('what', '')})
            cur['instances'] += r['instances']
            cur['points'] += r['points']
            if not cur['what']:
                cur['what'] = r.get('what', '')
        self.obligations += rec['obligations']
        self.discharged += rec['discharged']
        self.evaluations += rec['evaluations']
        for v in rec['violations']:
            self.violations.append((v[0], v[1], v[2], v[3]))
        for f in rec['fail_closed']:
            self.fail_closed.append(tuple(f))
        for s_ in rec['samples']:
            self._shared_samples.append(s_)
        for a in rec['assumptions']:
            if a not in self.assumptions:
                self.assumptions.append(a)
        self.notes.append('shared rule %s (%d obligations, computed in %.1fs for source hash %s)' % (name, rec['obligations'], rec['wall_s'], self._src_hash))

    # ---- finish
    def _fn_cover(self):
        """repository functions whose bodies the evaluator actually walked for this property (directly or through a shared bundle)"""
        import pete as _p
        try:
            allf = set(f.qname for f in self.prog.all_fns)
        except Exception:
            allf = set()
        cov = sorted(_p.COVER)
        return {'count': len(cov), 'repo_functions': len(allf), 'names': cov}

    def finish(self, explanation, level='other'):
        known = load_known()
        wall = time.time() - self.t0
        # a run against another tree (VERIF_REPO: seeded-change matrices, negative controls) must not overwrite the evidence of /repo
        out_root = VERIF if os.path.realpath(facts.REPO) == '/repo' else os.path.join(facts.CACHE, 'alt-' + re.sub(r'[^A-Za-z0-9]+', '_', os.path.realpath(facts.REPO)))
        rep_dir = os.path.join(out_root, 'reports', self.pid)
        os.makedirs(rep_dir, exist_ok=True)
        for f in os.listdir(rep_dir):
            try:
                os.unlink(os.path.join(rep_dir, f))
            except OSError:
                pass
        lines = []
        n_known = 0
        n_new = 0
        seen = set()
        for key, rule, msg, detail in self.violations + [(k, r, m, {}) for (k, r, m) in self.fail_closed]:
            if key in seen:
                continue
            seen.add(key)
            if (self.pid, key) in known and not msg.startswith('UNANALYSABLE') and not key.startswith('FLOOR:'):
                n_known += 1
                lines.append('KNOWN-FINDING: property=%s %s %s' % (self.pid, key, known[(self.pid, key)]))
                continue
            n_new += 1
            safe = re.sub(r'[^A-Za-z0-9_.-]+', '_', key)[:150]
            path = os.path.join(rep_dir, safe + '.json')
            with open(path, 'w', encoding='utf-8') as fh:
                json.dump({'property': self.pid, 'key': key, 'rule': rule, 'message': msg, 'detail': detail,
                           'src_hash': self._src_hash}, fh, ensure_ascii=False, indent=1, default=str)
            lines.append('VIOLATION property=%s replay=%s' % (self.pid, path))
            lines.append('  rule=%s key=%s' % (rule, key))
            lines.append('  %s' % msg)
        nontrivial = sum(1 for r in self.rules.values() if r['instances'] > 0)
        ev = {
            'property_id': self.pid,
            'tier': self.tier,
            'seed': int(self.seed),
            'level': level,
            'coverage': {
                'explanation': explanation,
                'obligations': self.obligations,
                'discharged': self.discharged,
                'evaluations': max(self.evaluations, 0),
                'distinct_nontrivial': sum(r['instances'] for r in self.rules.values()),
                'rule': 'each obligation is one rule instance (a function, table, call site or constant relation) decided from '
                        'the source; evaluations counts the finite-domain points / records / sites examined; an instance is '
                        'non-trivial when it examined at least one site of /repo',
                'rules': self.rules,
                'rule_kinds': nontrivial,
                'samples': (self.samples[:34] + self._shared_samples[:6]) or ['(none)'],
                'exhaustive': bool(self.exhaustive),
                'exhaustive_note': self.exhaustive_note or ('every table enumerates its whole finite domain' if self.exhaustive else ''),
                'notes': self.notes[:20],
                'checker_cmd': './check %s --tier %s' % (self.pid, self.tier),
                'trusted_base': ['syn parser (srcfacts)', 'rustc nightly MIR (mirfacts)', 'checker/pete.py integer semantics',
                                 'hand-written oracles under /verif/oracles'],
                'not_decided': sorted(set(self.not_decided)),
                'known_findings_reported': n_known,
                'functions_evaluated': self._fn_cover(),
                'src_hash': self._src_hash,
            },
            'assumptions': sorted(set(self.assumptions)),
            'wall_s': round(wall, 3),
            'violations': n_new,
        }
        os.makedirs(os.path.join(out_root, 'evidence'), exist_ok=True)
        with open(os.path.join(out_root, 'evidence', '%s.json' % self.pid), 'w', encoding='utf-8') as fh:
            json.dump(ev, fh, ensure_ascii=False, indent=1, default=str)
        out = []
        out.append('== %s tier=%s: %d obligations, %d discharged, %d points, %d known finding(s), %d new violation(s), %.1fs'
              % (self.pid, self.tier, self.obligations, self.discharged, self.evaluations, n_known, n_new, wall))
        for name, r in sorted(self.rules.items()):
            out.append('   rule %-28s instances=%-4d points=%-7d %s' % (name, r['instances'], r['points'], r['what'][:90]))
        out.extend(lines)
        try:
            sys.stdout.write('\n'.join(out) + '\n')
            sys.stdout.flush()
        except BrokenPipeError:
            try:
                sys.stdout = open(os.devnull, 'w')
            except OSError:
                pass
        return 1 if n_new else 0


def run_check(pid, tier, seed):
    import importlib
    mod = importlib.import_module('rules.%s' % pid.lower())
    ctx = Ctx(pid, tier, seed)
    try:
        explanation = mod.run(ctx)
        if tier == 'thorough' and hasattr(mod, 'Y') and not getattr(mod, 'NO_YEAR_SWEEP', False):
            # thorough: repeat the scenario-based rules for other scenario years (different weekday / pillar / leap alignments)
            y0 = mod.Y
            for alt in (1900, 2033, 2100 + (seed % 7)):
                mod.Y = alt
                try:
                    ctx.notes.append('scenario year %d' % alt)
                    mod.run(ctx)
                finally:
                    mod.Y = y0
    except Exception as ex:  # a crash of the checker is a broken check: fail closed, loudly
        traceback.print_exc()
        ctx.fail_closed.append(('CHECKER-ERROR', 'internal', 'checker crashed: %r' % (ex,)))
        explanation = 'checker crashed'
    return ctx.finish(explanation or getattr(mod, 'EXPLANATION', ''))
