"""Program model built from srcfacts JSON: items indexed by type / trait / name.

Pure syntax facts; nothing here executes repository code.
"""
import json
import re


class ProgError(Exception):
    pass


_NORM = {}


def norm_ty(t):
    """normalise a type string: drop refs, lifetimes, `mut`, `dyn`, whitespace"""
    if t is None:
        return None
    r = _NORM.get(t)
    if r is None:
        r = _norm_ty(t)
        _NORM[t] = r
    return r


def _norm_ty(t):
    t = t.strip()
    t = re.sub(r"'[a-z_]+\s*", "", t)
    while True:
        t2 = t.lstrip('&').strip()
        if t2.startswith('mut '):
            t2 = t2[4:]
        if t2 == t:
            break
        t = t2
    t = t.replace(' ', '')
    t = t.replace('dyn', 'dyn ') if t.startswith('dyn') else t
    return t


_SPLIT = {}


def split_generic(t):
    r = _SPLIT.get(t)
    if r is None:
        r = _split_generic(t)
        _SPLIT[t] = r
    return r


def _split_generic(t):
    """'Vec<Option<usize>>' -> ('Vec', ['Option<usize>'])"""
    t = norm_ty(t)
    if t is None:
        return None, []
    i = t.find('<')
    if i < 0 or not t.endswith('>'):
        return t, []
    head = t[:i]
    inner = t[i + 1:-1]
    parts, depth, cur = [], 0, ''
    for c in inner:
        if c in '<([':
            depth += 1
        elif c in '>)]':
            depth -= 1
        if c == ',' and depth == 0:
            parts.append(cur)
            cur = ''
        else:
            cur += c
    if cur:
        parts.append(cur)
    return head, parts


class Fn:
    __slots__ = ('name', 'owner', 'trait', 'params', 'self_kind', 'ret', 'body', 'vis', 'file', 'ln', 'end_ln',
                 'attrs', 'raw', 'is_trait_default', 'generics')

    def __init__(self, raw, owner, trait, file, is_trait_default=False):
        self.raw = raw
        self.name = raw['name']
        self.owner = owner
        self.trait = trait
        self.params = raw['params']
        self.self_kind = raw['self']
        self.ret = raw['ret']
        self.body = raw['body']
        self.vis = raw.get('vis')
        self.file = file
        self.ln = raw['ln']
        self.end_ln = raw.get('end_ln')
        self.attrs = raw.get('attrs', [])
        self.generics = raw.get('generics', '')
        self.is_trait_default = is_trait_default

    @property
    def qname(self):
        if self.owner:
            return '%s::%s' % (self.owner, self.name)
        return self.name

    def __repr__(self):
        return '<fn %s %s:%s>' % (self.qname, self.file, self.ln)


class Program:
    def __init__(self, facts):
        self.facts = facts
        self.files = {f['file']: f for f in facts['files']}
        self.structs = {}      # name -> {'fields': [(name, ty)], 'file', 'ln', 'attrs'}
        self.enums = {}        # name -> {'variants': [...], ...}
        self.statics = {}      # name -> raw static item (+file); last definition wins (see static_defs)
        self.static_defs = {}  # name -> [items] (same name may exist in several modules)
        self.uses = {}         # file -> [(path segs, as-name)]
        self.inherent = {}     # type -> {fname: Fn}
        self.trait_impls = {}  # type -> {trait_str: {fname: Fn}}
        self.traits = {}       # trait name -> {'supers': [...], 'fns': {name: Fn (default or None)}}
        self.free_fns = {}     # name -> Fn
        self.impl_headers = []  # (self_ty, trait, file, ln, unsafe)
        self.all_fns = []
        self.dups = []
        for f in facts['files']:
            self._items(f['items'], f['file'])

    @staticmethod
    def load(path):
        with open(path) as fh:
            return Program(json.load(fh))

    def _items(self, items, file):
        for it in items:
            k = it.get('k')
            if k == 'multi':
                self._items(it['items'], file)
            elif k == 'mod':
                if it.get('inline') and not it.get('cfg_test'):
                    self._items(it['items'], file)
            elif k == 'struct_def':
                if it['name'] in self.structs or it['name'] in self.enums:
                    self.dups.append(it['name'])
                self.structs[it['name']] = {'fields': [(f['name'], f['ty']) for f in it['fields']], 'file': file,
                                            'ln': it['ln'], 'attrs': it.get('attrs', []), 'vis': it['vis'],
                                            'field_vis': {f['name']: f['vis'] for f in it['fields']}}
            elif k == 'enum_def':
                if it['name'] in self.structs or it['name'] in self.enums:
                    self.dups.append(it['name'])
                self.enums[it['name']] = {'variants': it['variants'], 'file': file, 'ln': it['ln'],
                                          'attrs': it.get('attrs', [])}
            elif k == 'static':
                it = dict(it)
                it['file'] = file
                self.statics[it['name']] = it
                self.static_defs.setdefault(it['name'], []).append(it)
            elif k == 'use':
                for u in it.get('paths', []):
                    self.uses.setdefault(file, []).append((u['path'], u['as']))
            elif k == 'fn':
                fn = Fn(it, None, None, file)
                self.free_fns[fn.name] = fn
                self.all_fns.append(fn)
            elif k == 'impl':
                ty = norm_ty(it['self_ty'])
                base, _ = split_generic(ty)
                tr = it['trait']
                self.impl_headers.append((base, tr, file, it['ln'], it.get('unsafe', False)))
                for sub in it['items']:
                    if sub.get('k') == 'fn':
                        fn = Fn(sub, base, tr, file)
                        self.all_fns.append(fn)
                        if tr is None:
                            d = self.inherent.setdefault(base, {})
                            if fn.name in d:
                                self.dups.append('%s::%s' % (base, fn.name))
                            d[fn.name] = fn
                        else:
                            self.trait_impls.setdefault(base, {}).setdefault(tr, {})[fn.name] = fn
                    elif sub.get('k') == 'static':
                        s = dict(sub)
                        s['file'] = file
                        self.statics['%s::%s' % (base, sub['name'])] = s
                        self.static_defs.setdefault('%s::%s' % (base, sub['name']), []).append(s)
                if tr is not None:
                    self.trait_impls.setdefault(base, {}).setdefault(tr, {})
            elif k == 'trait':
                fns = {}
                for sub in it['items']:
                    fn = Fn(sub, it['name'], it['name'], file, is_trait_default=True)
                    fns[fn.name] = fn
                    if fn.body is not None:
                        self.all_fns.append(fn)
                self.traits[it['name']] = {'supers': it['supers'], 'fns': fns, 'file': file, 'ln': it['ln']}

    # ---- lookup -------------------------------------------------------
    @staticmethod
    def file_module(file):
        # 'src/tyme/culture/star/six.rs' -> ['tyme','culture','star','six']
        parts = file.split('/')[1:]
        if parts[-1] in ('mod.rs', 'lib.rs'):
            parts = parts[:-1]
        else:
            parts[-1] = parts[-1][:-3]
        return parts

    def resolve_static(self, name, file):
        defs = self.static_defs.get(name)
        if not defs:
            return None
        if len(defs) == 1:
            return defs[0]
        for d in defs:
            if d['file'] == file:
                return d
        for path, as_name in self.uses.get(file, []):
            if as_name == name:
                mod = [s for s in path[:-1] if s != 'crate']
                for d in defs:
                    if self.file_module(d['file']) == mod:
                        return d
        raise ProgError('ambiguous static %s from %s' % (name, file))

    def traits_of(self, ty):
        """trait base names implemented by ty, including supertraits"""
        out = []
        for tr in self.trait_impls.get(ty, {}):
            base, _ = split_generic(tr)
            out.append(base)
        seen = set(out)
        work = list(out)
        while work:
            t = work.pop()
            for s in self.traits.get(t, {}).get('supers', []):
                b, _ = split_generic(s)
                if b not in seen:
                    seen.add(b)
                    out.append(b)
                    work.append(b)
        return out

    def find_method(self, ty, name, hint=None):
        """resolve ty.name(..) -> Fn or None. hint: expected result type for generic traits (Into<T>)."""
        fn = self.inherent.get(ty, {}).get(name)
        if fn is not None:
            return fn
        cands = []
        for tr, fns in self.trait_impls.get(ty, {}).items():
            if name in fns:
                cands.append((tr, fns[name]))
        if len(cands) == 1:
            return cands[0][1]
        if len(cands) > 1:
            if hint is not None:
                h = norm_ty(hint)
                for tr, fn in cands:
                    _, gs = split_generic(tr)
                    if gs and norm_ty(gs[0]) == h:
                        return fn
                for tr, fn in cands:
                    if norm_ty(fn.ret) == h:
                        return fn
            raise ProgError('ambiguous method %s::%s (%s)' % (ty, name, [c[0] for c in cands]))
        for tr in self.traits_of(ty):
            fn = self.traits.get(tr, {}).get('fns', {}).get(name)
            if fn is not None and fn.body is not None:
                return fn
        return None

    def find_assoc(self, ty, name):
        """resolve Type::name (static call)"""
        return self.find_method(ty, name)

    def fn(self, qname):
        """'Type::name' or 'name' -> Fn; raises if missing"""
        if '::' in qname:
            ty, name = qname.rsplit('::', 1)
            f = self.find_method(ty, name)
        else:
            f = self.free_fns.get(qname)
        if f is None:
            raise ProgError('no such function: %s' % qname)
        return f

    def has_fn(self, qname):
        try:
            self.fn(qname)
            return True
        except ProgError:
            return False

    def is_type(self, name):
        return name in self.structs or name in self.enums


def walk(node, fn):
    """pre-order walk over JSON tree calling fn(dict_node); skips cfg(test) modules"""
    if isinstance(node, dict):
        if node.get('k') == 'mod' and node.get('cfg_test'):
            return
        fn(node)
        for v in node.values():
            if isinstance(v, (dict, list)):
                walk(v, fn)
    elif isinstance(node, list):
        for v in node:
            walk(v, fn)
