# -*- coding: utf-8 -*-
"""Calendar model: oracle stand-ins for the NUMERIC layer only.

Rules that decide table/shape clauses of date-level code (year/month pillar switching, term-anchored day
series, containers, weeks, child limit) evaluate the repository's real integer code with PETE, but the
three numeric entry points are replaced by independent stand-ins:

  * civil date <-> Julian day: the integer calendar oracle (/verif/oracles/calendar_oracle.py);
  * solar terms: a scenario table (year, index) -> (Julian day number, second of day) supplied by the rule;
  * lunar months: a scenario table of months (year, +-month, first JDN, length, index in year).

Nothing of ShouXingUtil or of the Julian-day float formulas is evaluated; what is decided is therefore
conditional on those layers (C01, C05/C06, C02/C03), and each rule says so.
"""
from pete import SV, RInt, Opt, NONE, CellV, Unanalysable, Bottom, as_num, py
import calendar_oracle as CAL

J2000 = 2451545


class CalModel(object):
    def __init__(self, I, terms=None, months=None, cursory_shift=None):
        self.I = I
        # (year, idx) -> days by which the term's CALENDAR-MAKING day (day table) differs from the day of its precise instant
        # (in the real data the two differ by a day for some terms before 1928).  Default: off by -1 / +1 / 0 in turn, in EVERY scenario:
        # the only reader of the day table in the crate is LunarMonth::new (replaced by the month model here), so date-level code
        # that consults it instead of the precise instant is wrong, and with this default every scenario rule can see that.
        self.cursory_shift = cursory_shift
        self.terms = terms or {}      # (year, idx) -> (jdn, sec_of_day)
        self.months = months or []    # list of dicts: year, month (signed), first, count, index
        self.install()

    # ---------------------------------------------------------------- value builders
    def jd(self, x):
        return SV('JulianDay', {'day': float(x)})

    def solar_day(self, y, m, d):
        if not CAL.exists(y, m, d):
            raise Bottom('model: civil day %d-%d-%d does not exist' % (y, m, d))
        return SV('SolarDay', {'month': SV('SolarMonth', {'year': SV('SolarYear', {'year': RInt(y, 'isize')}), 'month': RInt(m, 'usize')}),
                               'day': RInt(d, 'usize')})

    def solar_day_n(self, n):
        return self.solar_day(*CAL.from_jdn(n))

    def solar_time(self, y, m, d, h, mi, s):
        return SV('SolarTime', {'day': self.solar_day(y, m, d), 'hour': RInt(h, 'usize'), 'minute': RInt(mi, 'usize'), 'second': RInt(s, 'usize')})

    def solar_time_n(self, n, sec):
        y, m, d = CAL.from_jdn(n)
        return self.solar_time(y, m, d, sec // 3600, sec // 60 % 60, sec % 60)

    @staticmethod
    def ymd_of(sd):
        return (sd.f['month'].f['year'].f['year'].v, sd.f['month'].f['month'].v, sd.f['day'].v)

    def n_of(self, sd):
        y, m, d = self.ymd_of(sd)
        if not CAL.exists(y, m, d):
            raise Bottom('model: civil day %d-%d-%d does not exist' % (y, m, d))
        return CAL.jdn(y, m, d)

    def term_sv(self, year, idx):
        year += idx // 24
        idx = idx % 24
        key = (year, idx)
        if key not in self.terms:
            raise Unanalysable('model: scenario has no solar term (%d, %d)' % key)
        names = self.I.static('SOLAR_TERM_NAMES', 'src/tyme/solar.rs')
        parent = self.I.call('LoopTyme::from_index', [list(names), idx])
        n, sec = self.terms[key]
        return SV('SolarTerm', {'parent': parent, 'year': RInt(year, 'isize'), 'cursory_julian_day': float(n + (self.cursory_shift.get(key, 0) if self.cursory_shift is not None else (-1, 1, 0)[idx % 3]) - J2000)})

    def term_key(self, t):
        return (t.f['year'].v, t.f['parent'].f['index'].v)

    def month_rec(self, year, month):
        for r in self.months:
            if r['year'] == year and r['month'] == month:
                return r
        raise Unanalysable('model: scenario has no lunar month (%d, %d)' % (year, month))

    def lunar_month_sv(self, r):
        return SV('LunarMonth', {'year': SV('LunarYear', {'year': RInt(r['year'], 'isize')}), 'month': RInt(abs(r['month']), 'usize'), 'leap': r['month'] < 0,
                                 'day_count': RInt(r['count'], 'usize'), 'index_in_year': RInt(r['index'], 'usize'), 'first_julian_day': self.jd(r['first'])})

    def lunar_day_sv(self, r, day):
        return SV('LunarDay', {'month': self.lunar_month_sv(r), 'day': RInt(day, 'usize'), 'solar_day': CellV(NONE, 'refcell'), 'sixty_cycle_day': CellV(NONE, 'refcell')})

    def lunar_of_n(self, n):
        for r in self.months:
            if r['first'] <= n < r['first'] + r['count']:
                return r, n - r['first'] + 1
        raise Unanalysable('model: scenario has no lunar month containing JDN %d' % n)

    # ---------------------------------------------------------------- overrides
    def install(self):
        I = self.I
        o = I.overrides

        def from_ymd_hms(I_, r, a):
            y, m, d, h, mi, s = [as_num(x) for x in a]
            if not CAL.exists(y, m, d):
                raise Bottom('model: JulianDay::from_ymd_hms of nonexistent civil day %d-%d-%d' % (y, m, d))
            return self.jd(CAL.jdn(y, m, d) - 0.5 + (h * 3600 + mi * 60 + s) / 86400.0)
        o['JulianDay::from_ymd_hms'] = from_ymd_hms

        def jd_split(r):
            x = r.f['day'] + 0.5
            n = int(x // 1)
            sec = int(round((x - n) * 86400.0))
            if sec >= 86400:
                sec -= 86400
                n += 1
            return n, sec

        def get_solar_time(I_, r, a):
            n, sec = jd_split(r)
            return self.solar_time_n(n, sec)
        o['JulianDay::get_solar_time'] = get_solar_time

        o['SolarTerm::from_index'] = lambda I_, r, a: self.term_sv(as_num(a[0]), as_num(a[1]))

        def term_new(I_, r, a):
            from pete import Res
            names = py(self.I.static('SOLAR_TERM_NAMES', 'src/tyme/solar.rs'))
            if a[1] not in names:
                raise Bottom('unknown term name')
            return Res(self.term_sv(as_num(a[0]), names.index(a[1])), True)
        o['SolarTerm::new'] = term_new

        def term_jd(I_, r, a):
            n, sec = self.terms[self.term_key(r)]
            return self.jd(n - 0.5 + sec / 86400.0)
        o['SolarTerm::get_julian_day'] = term_jd

        def get_lunar_day(I_, r, a):
            rec, day = self.lunar_of_n(self.n_of(r))
            return self.lunar_day_sv(rec, day)
        o['SolarDay::get_lunar_day'] = get_lunar_day

        def from_ym(I_, r, a):
            I_.call('LunarYear::from_year', [as_num(a[0])])      # the real constructor starts with this guard (years outside -1..9999 are refused)
            return self.lunar_month_sv(self.month_rec(as_num(a[0]), as_num(a[1])))
        o['LunarMonth::from_ym'] = from_ym

        def lm_new(I_, r, a):
            from pete import Res
            I_.call('LunarYear::from_year', [as_num(a[0])])
            try:
                return Res(self.lunar_month_sv(self.month_rec(as_num(a[0]), as_num(a[1]))), True)
            except Unanalysable:
                raise
        o['LunarMonth::new'] = lm_new

        def leap_month(I_, r, a):
            y = r.f['year'].v
            for rec in self.months:
                if rec['year'] == y and rec['month'] < 0:
                    return RInt(-rec['month'], 'usize')
            return RInt(0, 'usize')
        o['LunarYear::get_leap_month'] = leap_month


# ---------------------------------------------------------------------- scenario builders
TYPICAL_TERM_MD = [(12, 22), (1, 6), (1, 20), (2, 4), (2, 19), (3, 6), (3, 21), (4, 5), (4, 20), (5, 6), (5, 21), (6, 6),
                   (6, 21), (7, 7), (7, 23), (8, 8), (8, 23), (9, 8), (9, 23), (10, 8), (10, 23), (11, 7), (11, 22), (12, 7)]


def typical_terms(years, shift=None, sec=None):
    """scenario table of term days near their typical civil dates; shift: dict idx->days, sec: dict idx->second of day"""
    shift = shift or {}
    sec = sec or {}
    out = {}
    for y in years:
        for i, (m, d) in enumerate(TYPICAL_TERM_MD):
            yy = y - 1 if i == 0 else y
            out[(y, i)] = (CAL.jdn(yy, m, d) + shift.get(i, 0), sec.get(i, 43200 + 997 * i % 40000))
    return out


def with_lengths(months, lengths):
    """copy of a scenario month list in which the months keyed (year, month) get the given lengths (28..31) and all later months shift accordingly"""
    out = []
    shift = 0
    for r in months:
        r = dict(r)
        r['first'] += shift
        k = (r['year'], r['month'])
        if k in lengths:
            shift += lengths[k] - r['count']
            r['count'] = lengths[k]
        out.append(r)
    return out


def synthetic_months(first_year, new_year_jdn, n_years=2, leap=None, prev_months=3, auto_leap=True):
    """alternating 30/29-day months; new_year_jdn = JDN of month 1 day 1 of first_year; leap = {year: month}"""
    leap = leap or {}
    out = []
    # months before the first new year (tail of the previous lunar year)
    n = new_year_jdn
    for k in range(prev_months):
        cnt = 29 if k % 2 == 0 else 30
        n -= cnt
        out.append({'year': first_year - 1, 'month': 12 - k, 'first': n, 'count': cnt, 'index': 11 - k})
    out.reverse()
    n = new_year_jdn
    for y in range(first_year, first_year + n_years):
        idx = 0
        lm = leap.get(y)
        if lm is None and auto_leap and n + 354 < CAL.jdn(y + 1, 1, 22):
            lm = 5      # keep the lunar new year inside Jan 21 .. Feb 20 like the real calendar
        for m in range(1, 13):
            cnt = 30 if (m + y) % 2 == 0 else 29
            out.append({'year': y, 'month': m, 'first': n, 'count': cnt, 'index': idx})
            n += cnt
            idx += 1
            if lm == m:
                cnt = 30
                out.append({'year': y, 'month': -m, 'first': n, 'count': cnt, 'index': idx})
                n += cnt
                idx += 1
    return out
