# -*- coding: utf-8 -*-
"""C14 — weeks of a month: seven consecutive days, right start weekday, no day lost.

The week code is integer arithmetic on top of the day count; it is evaluated by PETE with the Julian-day
layer replaced by the calendar oracle (civil weeks: real calendar months; lunar weeks: scenario months).
"""
import os
from rlib import T, table, py, fn_site, Bottom, Unanalysable
from calmodel import CalModel, synthetic_months, with_lengths
import calendar_oracle as CAL


def weekday(n):
    return (n + 1) % 7


def run(ctx):
    ctx.exhaustive = False
    ctx.exhaustive_note = 'complete over the listed sample months x 7 week starts; not over all months'
    from rules import shared
    ctx.include('effect_inventory', shared.effect_inventory)   # no new process-wide mutable state (MIR statics inventory)
    ctx.include('month_records', shared.month_records)   # leap table, solstice anchor, month memo, memo cells (shared, cached per source hash)
    ctx.include('jd_tables', shared.jd_tables)           # civil date <-> day number per (year, month) (shared, cached per source hash)
    I = ctx.interp(fuel=80000000)
    t = T(I)
    p = ctx.prog
    R = 'PETE-CAL'
    ctx.rule(R, 'week code evaluated on calendar months (JD layer = oracle) for every start weekday and week index, vs the covering rule')
    thorough = ctx.tier == 'thorough'
    yrs = list(range(2000, 2028)) if thorough else list(range(2020, 2028))
    months = [(y, m) for y in yrs for m in range(1, 13)] + [(1582, 9), (1582, 10), (1582, 11), (1900, 2), (9999, 11)]
    # (one 28-day and one 31-day month: the library's own fitted new-moon table has a 28-day lunation, and week arithmetic must not assume 29 / 30)
    cm = CalModel(I, {}, with_lengths(synthetic_months(2023, CAL.jdn(2023, 1, 22), 3, leap={2023: 2, 2025: 6}, prev_months=2, auto_leap=False), {(2024, 3): 28, (2024, 8): 31}))

    def month_days(y, m):
        return [CAL.jdn(y, m, d) for d in range(1, 32) if CAL.exists(y, m, d)]

    # ---- civil: count, first day, coverage, contiguity
    def civil(x):
        y, m, start = x
        sm = I.call('SolarMonth::from_ym', [y, m])
        cnt = py(t.m(sm, 'get_week_count', start))
        weeks = t.m(sm, 'get_weeks', start)
        firsts = []
        ok_days = True
        covered = set()
        for k, w in enumerate(weeks):
            f = cm.n_of(t.m(w, 'get_first_day'))
            firsts.append(f)
            sm_ = t.m(w, 'get_solar_month')
            if (py(t.m(w, 'get_index')), t.idx(t.m(w, 'get_start')), py(t.m(sm_, 'get_year')), py(t.m(sm_, 'get_month'))) != (k, start, y, m):
                ok_days = False      # the k-th listed week must be labelled (month, k, start)
            ds = [cm.n_of(d) for d in t.m(w, 'get_days')]
            if ds != list(range(f, f + 7)):
                ok_days = False
            covered.update(ds)
        return (cnt, len(weeks), firsts, ok_days, all(n in covered for n in month_days(y, m)))

    def civil_orc(x):
        y, m, start = x
        ds = month_days(y, m)
        off = (weekday(ds[0]) - start) % 7
        first = ds[0] - off
        cnt = 0
        firsts = []
        while first + 7 * cnt <= ds[-1]:
            firsts.append(first + 7 * cnt)
            cnt += 1
        return (cnt, cnt, firsts, True, True)
    dom = [(y, m, s) for (y, m) in months for s in range(7) if not ((y, m) == (1, 1)) ]
    table(ctx, R, 'SolarMonth::get_weeks', dom, civil, civil_orc,
          'weeks of a civil month: first day on the chosen weekday, seven consecutive days, 7 days apart, covering every day; count = number of such weeks',
          lambda x: '%d-%d start=%d' % x, fn_site(p, 'SolarMonth::get_week_count'))

    # ---- civil: the week reported for a date contains that date (every day of the sample months, 3 starts)
    def of_date(x):
        y, m, d, start = x
        w = t.m(cm.solar_day(y, m, d), 'get_solar_week', start)
        f = cm.n_of(t.m(w, 'get_first_day'))
        return (weekday(f) == start, f <= CAL.jdn(y, m, d) <= f + 6)
    sample_m = [(y, m) for (y, m) in months if y in (1582, 1900, 2024, 2026) and (y, m) != (1582, 9)]
    domd = [(y, m, d, s) for (y, m) in sample_m for d in range(1, 32) if CAL.exists(y, m, d) for s in (0, 1, 6)]
    table(ctx, R, 'SolarDay::get_solar_week', domd, of_date, lambda x: (True, True), 'the week reported for a date starts on the chosen weekday and contains the date',
          lambda x: '%d-%d-%d start=%d' % x, fn_site(p, 'SolarDay::get_solar_week'))

    # ---- civil: stepping a week by n moves its first day by 7n; index in year
    def step(x):
        y, m, i, start, n = x
        w = I.call('SolarWeek::from_ym', [y, m, i, start])
        f0 = cm.n_of(t.m(w, 'get_first_day'))
        w1 = t.m(w, 'next', n)
        f1 = cm.n_of(t.m(w1, 'get_first_day'))
        sm1 = t.m(w1, 'get_solar_month')
        again = I.call('SolarWeek::from_ym', [py(t.m(sm1, 'get_year')), py(t.m(sm1, 'get_month')), py(t.m(w1, 'get_index')), t.idx(t.m(w1, 'get_start'))])
        if cm.n_of(t.m(again, 'get_first_day')) != f1:
            return 'the stepped week is labelled (%s-%s week %s) but that label denotes another week' % (py(t.m(sm1, 'get_year')), py(t.m(sm1, 'get_month')), py(t.m(w1, 'get_index')))
        return f1 - f0
    ms2 = [(y, m) for y in ((2021, 2024, 2026) if not thorough else tuple(range(2018, 2028))) for m in (1, 2, 3, 6, 12)] + [(1582, 10), (1582, 11)]
    doms = []
    for (y, m) in ms2:
        for start in (0, 1, 3, 6):
            ds = month_days(y, m)
            off = (weekday(ds[0]) - start) % 7
            cnt = (off + (ds[-1] - ds[0] + 1) + 6) // 7
            for i in (0, cnt - 1):
                for n in (-9, -5, -4, -1, 1, 4, 5, 9):
                    doms.append((y, m, i, start, n))
    table(ctx, R, 'SolarWeek::next', doms, step, lambda x: 7 * x[4], 'stepping a civil week by n moves its first day by exactly 7n days (across month and year borders)',
          lambda x: '%d-%d week=%d start=%d n=%d' % x, fn_site(p, 'SolarWeek::next'))

    def idx_in_year(x):
        y, m, i, start = x
        w = I.call('SolarWeek::from_ym', [y, m, i, start])
        return py(t.m(w, 'get_index_in_year'))

    def idx_orc(x):
        y, m, i, start = x
        ds = month_days(y, m)
        f = ds[0] - (weekday(ds[0]) - start) % 7 + 7 * i
        j1 = CAL.jdn(y, 1, 1)
        f0 = j1 - (weekday(j1) - start) % 7
        return (f - f0) // 7
    def last_week(y, m, s):
        ds = month_days(y, m)
        return ((weekday(ds[0]) - s) % 7 + len(ds) + 6) // 7 - 1
    iy_dom = [(y, m, i, s) for (y, m) in [(2024, 1), (2024, 2), (2024, 12), (2026, 3), (2021, 12)] for i in (0, 3) for s in (0, 1, 4)]
    # the last week of December for every week start: a leap year whose January 1 is the weekday before the week start spans 54 weeks (2000 / Sunday, 2012 / Monday, 1972 / Sunday)
    iy_dom += [(y, 12, last_week(y, 12, s), s) for y in (1972, 2000, 2012, 2023, 2024, 1582) for s in range(7)]
    # weeks that start on, around and after the ten dropped days of October 1582 (a first day there has a day-of-month 10 larger than its place in the month)
    iy_dom += [(1582, m_, i_, s) for (m_, i_) in ((10, 0), (10, 1), (10, 2), (10, 3), (11, 0), (11, 2)) for s in (0, 1, 4, 6) if i_ <= last_week(1582, m_, s)]
    table(ctx, R, 'SolarWeek::get_index_in_year', sorted(set(iy_dom)),
          idx_in_year, idx_orc, 'index in year counts weeks from the one containing January 1', str, fn_site(p, 'SolarWeek::get_index_in_year'))

    # ---- lunar weeks on scenario months (incl. leap months)
    last_n = max(r['first'] + r['count'] for r in cm.months)
    first_n = min(r['first'] for r in cm.months)
    recs = [r for r in cm.months if r['first'] - 7 > first_n and r['first'] + r['count'] + 7 < last_n]

    def lunar(x):
        ri, start = x
        r = recs[ri]
        lm = cm.lunar_month_sv(r)
        cnt = py(t.m(lm, 'get_week_count', start))
        weeks = t.m(lm, 'get_weeks', start)
        firsts = []
        ok = True
        for k, w in enumerate(weeks):
            fd = t.m(w, 'get_first_day')
            f = cm.n_of(t.m(fd, 'get_solar_day'))
            firsts.append(f)
            lm_ = t.m(w, 'get_lunar_month')
            if (py(t.m(w, 'get_index')), t.idx(t.m(w, 'get_start')), py(t.m(lm_, 'get_year')), py(t.m(lm_, 'get_month_with_leap'))) != (k, start, r['year'], r['month']):
                ok = False      # the k-th listed week must be labelled (month, k, start)
            ds = [cm.n_of(t.m(d, 'get_solar_day')) for d in t.m(w, 'get_days')]
            if ds != list(range(f, f + 7)):
                ok = False
        return (cnt, firsts, ok)

    def lunar_orc(x):
        ri, start = x
        r = recs[ri]
        first = r['first'] - (weekday(r['first']) - start) % 7
        firsts = []
        k = 0
        while first + 7 * k <= r['first'] + r['count'] - 1:
            firsts.append(first + 7 * k)
            k += 1
        return (k, firsts, True)
    table(ctx, R, 'LunarMonth::get_weeks', [(ri, s) for ri in range(len(recs)) for s in range(7)], lunar, lunar_orc,
          'weeks of a lunar month (29/30 days, leap months included): same covering rule', lambda x: '%s-%s start=%d' % (recs[x[0]]['year'], recs[x[0]]['month'], x[1]), fn_site(p, 'LunarMonth::get_week_count'))

    def lstep(x):
        ri, i, start, n = x
        r = recs[ri]
        w = I.call('LunarWeek::from_ym', [r['year'], r['month'], i, start])
        f0 = cm.n_of(t.m(t.m(w, 'get_first_day'), 'get_solar_day'))
        w1 = t.m(w, 'next', n)
        f1 = cm.n_of(t.m(t.m(w1, 'get_first_day'), 'get_solar_day'))
        lm1 = t.m(w1, 'get_lunar_month')
        again = I.call('LunarWeek::from_ym', [py(t.m(lm1, 'get_year')), py(t.m(lm1, 'get_month_with_leap')), py(t.m(w1, 'get_index')), t.idx(t.m(w1, 'get_start'))])
        if cm.n_of(t.m(t.m(again, 'get_first_day'), 'get_solar_day')) != f1:
            return 'the stepped week is labelled (%s-%s week %s) but that label denotes another week' % (py(t.m(lm1, 'get_year')), py(t.m(lm1, 'get_month_with_leap')), py(t.m(w1, 'get_index')))
        return f1 - f0
    inner = [ri for ri, r in enumerate(recs) if r['year'] in (2023, 2024, 2025) and 3 <= ri < len(recs) - 4]
    doml = []
    for ri in inner[::2] + [ri for ri in inner if recs[ri]['month'] < 0 or (ri + 1 < len(recs) and recs[ri + 1]['month'] < 0)]:
        r = recs[ri]
        for start in range(7):
            cnt = ((weekday(r['first']) - start) % 7 + r['count'] + 6) // 7
            for i in (0, cnt - 1):
                for n in (-5, -1, 1, 5):
                    doml.append((ri, i, start, n))
    doml = sorted(set(doml))
    table(ctx, R, 'LunarWeek::next', doml, lstep, lambda x: 7 * x[3], 'stepping a lunar week by n moves its first day by exactly 7n days (also into and out of leap months)',
          lambda x: '%s-%s week=%d start=%d n=%d' % (recs[x[0]]['year'], recs[x[0]]['month'], x[1], x[2], x[3]), fn_site(p, 'LunarWeek::next'))

    ctx.assumptions.append('civil date <-> day number replaced by the calendar oracle (C01); lunar months are scenario months (C02/C03)')
    ctx.not_decided.append('weeks of real lunar months (their first days and lengths are numeric: C03)')
    return ('the civil and lunar week code evaluated from the syntax tree on calendar months for every start weekday and week index: count, first day, '
            'coverage, contiguity, week-of-date, stepping by n (=7n days) and index in year')
