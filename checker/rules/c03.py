# -*- coding: utf-8 -*-
"""C03 — lunar months tile time (structural clauses only); shared by C04 (table clauses).

Decided: the packed leap-month table (decoded by evaluating its own initialiser) is well-formed;
month <-> position-in-year maps of LunarMonth::new / LunarMonth::next are mutually inverse for every leap
month position; 12/13 month counts agree; month k's end is month k+1's start inside a year (same stride);
the year container sums its months.  NOT decided: 29/30-day lengths, abutting across years, year lengths
(new-moon series).
"""
from rlib import T, table, py, fn_site, Bottom, Unanalysable
from pete import SV, RInt, Res
import calendar_oracle as CAL


def leap_table(I):
    """decoded LEAP_MONTH_YEAR: {month: [years]}"""
    raw = I.static('LEAP_MONTH_YEAR', 'src/tyme/lunar.rs')
    out = {}
    for k, (kk, vv) in raw.items():
        out[py(kk)] = [py(x) for x in vv]
    return out


def table_rules(ctx, I, pid):
    """necessary conditions on the stored leap-month table; returns the decoded table"""
    p = ctx.prog
    ctx.rule('TABLES-LEAP', 'packed leap-month table decoded by its own initialiser: 12 columns, increasing years in range, one leap month per year, intercalation gaps 2-3 years')
    tbl = None

    def decode():
        t = leap_table(I)
        if sorted(t.keys()) != list(range(1, 13)):
            return 'leap table keys are %s, expected 1..12' % sorted(t.keys())
        n = sum(len(v) for v in t.values())
        if n < 3600:
            return 'leap table decodes to %d leap years, expected about 3684' % n
        for m, ys in t.items():
            for a, b in zip(ys, ys[1:]):
                if b <= a:
                    return 'column %d is not strictly increasing at %d -> %d (a corrupted packed pair shifts every later year)' % (m, a, b)
            if ys and (ys[0] < -1 or ys[-1] > 9999):
                return 'column %d leaves the supported year range (%d..%d)' % (m, ys[0], ys[-1])
        return None
    ok = ctx.guard('TABLES-LEAP', 'TABLES:LEAP_MONTH_YEAR:decode', decode, 12, {'table': 'LEAP_MONTH_YEAR', 'site': 'src/tyme/lunar.rs'})
    if not ok:
        return None
    tbl = leap_table(I)
    years = {}
    dup = []
    for m, ys in tbl.items():
        for y in ys:
            if y in years:
                dup.append((y, years[y], m))
            years[y] = m
    if dup:
        ctx.violation('TABLES-LEAP', 'TABLES:LEAP_MONTH_YEAR:unique', 'year %d is listed under two leap months (%d and %d): the lookup result would depend on hash-map iteration order' % dup[0], {'dups': dup[:10]}, len(years))
    else:
        ctx.ok('TABLES-LEAP', len(years), {'leap_years': len(years)})
    # intercalation rhythm: a lunar year is ~10.9 days short, so a leap month is due every 2-3 years.
    # windows the month-offset code itself special-cases (calendar reforms) are read from LunarMonth::new's literals
    special = reform_years(p)
    ly = sorted(years)
    bad = []
    for a, b in zip(ly, ly[1:]):
        g = b - a
        if g not in (2, 3):
            if any(abs(a - s) <= 1 or abs(b - s) <= 1 for s in special):
                continue
            bad.append((a, b, g))
    if bad:
        ctx.violation('TABLES-LEAP', 'TABLES:LEAP_MONTH_YEAR:gaps', 'successive leap years %d and %d are %d years apart (intercalations are 2-3 years apart outside the reform windows %s): %d such pairs' % (bad[0][0], bad[0][1], bad[0][2], sorted(special), len(bad)), {'bad': bad[:10]}, len(ly))
    else:
        ctx.ok('TABLES-LEAP', len(ly), {'gaps_checked': len(ly) - 1, 'reform_years': sorted(special)})
    # the same rhythm counted in lunations: successive leap months are 28..37 lunations apart (mean 33.6); a year typo moves that by 12-13
    lyl = sorted((y, m) for m, ys in tbl.items() for y in ys)
    badl = []
    for (y1, m1), (y2, m2) in zip(lyl, lyl[1:]):
        n = 12 * (y2 - y1) + (m2 - m1) + 1
        if not 28 <= n <= 37:
            if any(abs(y1 - s) <= 2 or abs(y2 - s) <= 2 for s in special):
                continue
            badl.append(((y1, m1), (y2, m2), n))
    if badl:
        ctx.violation('TABLES-LEAP', 'TABLES:LEAP_MONTH_YEAR:lunation-interval', 'leap month %s is followed by leap month %s after %d lunations (28..37 expected outside the reform windows %s): %d such pairs' % (badl[0][0], badl[0][1], badl[0][2], sorted(special), len(badl)), {'bad': badl[:10]}, len(lyl))
    else:
        ctx.ok('TABLES-LEAP', len(lyl), {'lunation_intervals_checked': len(lyl) - 1})
    # 19-year rhythm: any 19 consecutive lunar years contain 6..8 leap months (7 in the mean)
    bad19 = []
    s = set(ly)
    for y0 in range(30, 9980):
        c = sum(1 for y in range(y0, y0 + 19) if y in s)
        if c < 6 or c > 8:
            bad19.append((y0, c))
    if bad19:
        ctx.violation('TABLES-LEAP', 'TABLES:LEAP_MONTH_YEAR:metonic', 'the 19 lunar years from %d contain %d leap months (expected 7 +- 1): %d windows' % (bad19[0][0], bad19[0][1], len(bad19)), {'bad': bad19[:10]}, 9950)
    else:
        ctx.ok('TABLES-LEAP', 9950)
    return tbl


def reform_years(p):
    """integer literals compared with `year` inside LunarMonth::new (the code's own reform windows)"""
    from prog import walk
    out = set()
    try:
        fn = p.fn('LunarMonth::new')
    except Exception:
        return out

    def v(n):
        if n.get('k') == 'bin' and n['op'] in ('<', '>', '<=', '>=', '==', '!='):
            l, r = n['l'], n['r']
            if l.get('k') == 'path' and l['segs'] == ['year'] and r.get('k') == 'int':
                out.add(int(r['v']))
    walk(fn.body, v)
    return out


def anchor_rule(ctx, tbl):
    """the lunation containing the winter solstice is month 11: LunarMonth::new's anchoring logic evaluated against a
    uniform-lunation MODEL of the new-moon series, for every phase of the Moon at the solstice (day granularity)"""
    import math
    p = ctx.prog
    ctx.rule('MODEL-ANCHOR', 'LunarMonth::new anchoring (pre-solstice new moon, month-1 offset) evaluated against a uniform-lunation model for all 30 lunar phases at the solstice')
    I2 = ctx.interp(fuel=100000000)
    t2 = T(I2)
    P = 29.5306
    state = {'phi': 0.0, 'dz': 0.0}

    def newmoon(j):
        return math.floor(state['phi'] + j * P + 0.5)

    def shuo(I_, r, a):
        x = a[0]
        j = int(math.floor((x + 14.0 - state['phi']) / P))
        # latest model new moon whose DAY is <= x + 14
        while newmoon(j + 1) <= x + 14.0:
            j += 1
        while newmoon(j) > x + 14.0:
            j -= 1
        return float(newmoon(j))
    I2.overrides['ShouXingUtil::calc_shuo'] = shuo
    I2.overrides['ShouXingUtil::calc_qi'] = lambda I_, r, a: a[0]
    I2.overrides['SolarTerm::get_cursory_julian_day'] = lambda I_, r, a: state['dz']
    year_leap = {}
    for m, ys in tbl.items():
        for y in ys:
            year_leap[y] = m
    reform = reform_years(p)
    normal = [y for y in range(1900, 2200) if year_leap.get(y - 1, 0) <= 10 and y not in year_leap][:2]
    after_late_leap = [y for y in range(1000, 9000) if year_leap.get(y - 1, 0) > 10 and y not in year_leap][:2]
    ctx.floor('MODEL-ANCHOR', 'sample years following a leap 11th/12th month', len(after_late_leap), 1)
    dom = [(y, ph) for y in normal + after_late_leap for ph in range(0, 30)]

    def impl(x):
        y, ph = x
        state['dz'] = float((y - 2000) * 365 - 10)      # any day number serves as the solstice day
        state['phi'] = state['dz'] - ph                   # a model new moon falls `ph` days before the solstice day (ph = 0: on it)
        out = []
        for m in (1, 2, 12):
            v = I2.call('LunarMonth::new', [y, m]).v
            out.append(int(t2.m(t2.m(v, 'get_first_julian_day'), 'get_day') - 2451545.0))
        return out

    def orc(x):
        y, ph = x
        dz = float((y - 2000) * 365 - 10)
        state['dz'], state['phi'] = dz, dz - ph
        j0 = 0
        while newmoon(j0 + 1) <= dz:
            j0 += 1
        while newmoon(j0) > dz:
            j0 -= 1
        off = 3 if year_leap.get(y - 1, 0) > 10 else 2
        return [newmoon(j0 + off + k) for k in (0, 1, 11)]
    table(ctx, 'MODEL-ANCHOR', 'MODEL:LunarMonth::new:solstice-month', dom, impl, orc,
          'month 1 starts 2 lunations (3 after a leap 11th/12th month) after the lunation that CONTAINS the winter-solstice day, also when the new moon falls on the solstice day itself',
          lambda x: 'year %d, new moon %d day(s) before the solstice day' % x, fn_site(p, 'LunarMonth::new'))


def fit_rule(ctx):
    """Every lunation served by the fitted-segment branch of calc_shuo has 29 or 30 days.

    For Julian dates inside [SHUO_KB[0]-14, SHUO_KB[last]-14) the new-moon day is a pure function of the literal table
    (epoch + rate * floor(..), rounded): no series value is involved.  The branch is evaluated at two seeds per lunation over
    its whole range; successive distinct results must be 29 or 30 days apart - also across the joins of two segments, which is
    where a fitted table can go wrong.  Only the supported range (lunar year -1 on) is judged."""
    from rlib import pmap
    import calendar_oracle as CAL
    p = ctx.prog
    ctx.rule('TABLES-FIT', 'fitted new-moon table: successive new-moon days it serves are 29 or 30 days apart over its whole range, segment joins included')
    I2 = ctx.interp(fuel=10 ** 10)
    I2.forbidden.discard('ShouXingUtil::*')
    # the series stay out of reach - not by function name (a helper extracted from calc_shuo must remain evaluable) but by what they read:
    # the periodic-term tables, the TT-UT table and the correction strings
    I2.forbidden_statics = set(['XL0', 'XL1', 'NUT_B', 'DT_AT', 'SB', 'QB'])
    F = fn_site(p, 'ShouXingUtil::calc_shuo')['file'] if isinstance(fn_site(p, 'ShouXingUtil::calc_shuo'), dict) else 'src/tyme/util.rs'
    try:
        kb = py(I2.static('SHUO_KB', 'src/tyme/util.rs'))
        f1, f2 = kb[0] - 14.0, kb[-1] - 14.0
        lo = max(f1 + 1.0, CAL.jdn(1, 1, 1) - 400.0)
        n = int((f2 - lo) / 29.5306 * 2)
        seeds = [lo + 29.5306 / 2 * k - 2451545.0 for k in range(n) if lo + 29.5306 / 2 * k < f2 - 1.0]
        vals = pmap(lambda s_: I2.call('ShouXingUtil::calc_shuo', [s_]), seeds)
    except (Unanalysable, Bottom) as u:
        ctx.unanalysable('TABLES-FIT', 'FIT:calc_shuo', str(u))
        return
    ds = sorted(set(vals))
    bad = [(int(ds[i] + 2451545), int(ds[i + 1] - ds[i])) for i in range(len(ds) - 1) if (ds[i + 1] - ds[i]) not in (29.0, 30.0)]
    for (jdn, ln) in bad:
        y, m, d = CAL.from_jdn(jdn)
        ctx.violation('TABLES-FIT', 'FIT:calc_shuo:lunation-from-%04d-%02d-%02d' % (y, m, d),
                      'the fitted new-moon table serves new-moon days %04d-%02d-%02d and %04d-%02d-%02d: a lunation of %d days (a lunar month has 29 or 30)'
                      % ((y, m, d) + CAL.from_jdn(jdn + ln) + (ln,)), {'jdn': jdn, 'length': ln}, 1)
    ctx.ok('TABLES-FIT', len(ds) - 1 - len(bad), {'table': 'SHUO_KB', 'new_moons': len(ds), 'seeds': len(seeds), 'range_jdn': [lo, f2], 'site': fn_site(p, 'ShouXingUtil::calc_shuo')})


def chain_rule(ctx, tbl, skip_reform=False):
    """Lunar years tile only if the month-1 offsets of consecutive years agree with the month counts.

    LunarMonth::new anchors year y on the lunation A(y) that contains the winter solstice of December y-1 (month 11 of year
    y-1) and places month 1 at A(y) + offset(y).  Between two anchors lie month 11, 12 of year y-1 (plus a leap 11th/12th
    month of y-1) and months 1..10 of year y (plus a leap month <= 10 of y), hence
        A(y+1) - A(y) = 12 + [leap(y-1) in {11,12}] + [leap(y) in 1..10],
    and month 1 of year y+1 directly follows the last month of year y exactly when
        count(y) + offset(y) - offset(y+1) = A(y+1) - A(y).
    Both sides are read from the source alone: count / leap from the stored table, offset(y) by evaluating the real
    LunarMonth::new with the series stubbed by the identity (first day of month 1 = solstice + 29.5306 * offset)."""
    from rlib import pmap
    p = ctx.prog
    ctx.rule('TILE-CHAIN', 'consecutive lunar years abut: count(y) + offset(y) - offset(y+1) = 12 + [leap(y-1) in 11..12] + [leap(y) in 1..10] for every year (table + month-1 offset logic)')
    I2 = ctx.interp(fuel=10 ** 9)
    t2 = T(I2)
    I2.overrides['ShouXingUtil::calc_shuo'] = lambda I_, r, a: a[0]
    I2.overrides['ShouXingUtil::calc_qi'] = lambda I_, r, a: a[0]
    leap = {}
    for m, ys in tbl.items():
        for y in ys:
            leap[y] = m
    lm1 = py(t2.m(I2.call('LunarYear::from_year', [-1]), 'get_leap_month'))     # the year before the table is special-cased in the lookup itself
    if lm1:
        leap[-1] = lm1

    def offset(y):
        dz = t2.m(I2.call('SolarTerm::from_index', [y, 0]), 'get_cursory_julian_day')
        lm = I2.call('LunarMonth::new', [y, 1]).v
        first = t2.m(t2.m(lm, 'get_first_julian_day'), 'get_day') - 2451545.0
        return round((first - dz) / 29.5306, 3)
    years = list(range(0, 10000))
    try:
        offs = dict(zip(years, pmap(offset, years)))
    except (Unanalysable, Bottom) as u:
        ctx.unanalysable('TILE-CHAIN', 'TILE:LunarMonth::new:offsets', str(u))
        return
    reform = reform_years(p)
    bad = []
    skipped = 0
    for y in range(0, 9999):
        cnt = 13 if y in leap else 12
        n = cnt + offs[y] - offs[y + 1]
        in_reform = any(abs(y - r) <= 1 for r in reform)
        if n not in (12, 13):
            # astronomy alone: 12 or 13 new moons separate two winter solstices, whatever the months are called
            if skip_reform and in_reform:
                skipped += 1
                continue
            bad.append((y, 'span', 'lunar year %d (%d months, month-1 offset %g) and year %d (offset %g) cannot abut: the code places %g lunations between the solstice '
                        'lunations of the two years, and two winter solstices are always 12 or 13 lunations apart' % (y, cnt, offs[y], y + 1, offs[y + 1], n)))
            continue
        if in_reform:
            skipped += 1      # inside the code's own reform windows the month NUMBERS are historical: the table cannot tell which lunation holds the solstice
            continue
        want = 12 + (1 if leap.get(y - 1, 0) > 10 else 0) + (1 if 1 <= leap.get(y, 0) <= 10 else 0)
        if n != want:
            bad.append((y, 'leap-position', 'lunar year %d (%d months, month-1 offset %g) and year %d (offset %g) do not abut: the code places %g lunations between the '
                        'solstice lunations, the stored leap months put %d there' % (y, cnt, offs[y], y + 1, offs[y + 1], n, want)))
    for (y, kind, msg) in bad:
        ctx.violation('TILE-CHAIN', 'TILE:LunarMonth::new:year-%d:%s' % (y, kind),
                      msg + '; months around that new year overlap or leave a gap, so stepping does not abut and civil->lunar->civil is not the identity there', {'year': y}, 1)
    ctx.ok('TILE-CHAIN', 9999 - len(bad), {'years_checked': 9999, 'reform_years_with_span_bound_only': skipped, 'reform_literals': sorted(reform), 'offset_histogram': dict((str(k), list(offs.values()).count(k)) for k in set(offs.values())), 'site': fn_site(p, 'LunarMonth::new')})


def year_listing_rule(ctx):
    """A lunar year lists its 12 or 13 months in order, for every leap position 1..12 (and none), and its day count is the distance between new-year days.

    Real LunarYear::get_months / get_month_count / get_day_count evaluated on scenario calendars (month records = scenario input)."""
    from calmodel import CalModel, synthetic_months
    import calendar_oracle as CAL
    p = ctx.prog
    I2 = ctx.interp(fuel=50000000)
    t2 = T(I2)
    Y = 2000
    ctx.rule('PETE-SCENARIO', 'container / stepping code evaluated on scenario calendars (month records are scenario inputs)')

    def listing(L):
        months = synthetic_months(Y, CAL.jdn(Y, 2, 5), 2, leap=({Y: L} if L else {Y + 1: 6}), prev_months=3, auto_leap=False)
        CalModel(I2, {}, months)
        ly = I2.call('LunarYear::from_year', [Y])
        ms = t2.m(ly, 'get_months')
        first = [int(m.f['first_julian_day'].f['day']) for m in ms]
        return ([py(t2.m(m, 'get_month_with_leap')) for m in ms], py(t2.m(ly, 'get_month_count')), py(t2.m(ly, 'get_day_count')), first == sorted(first))

    def listing_orc(L):
        months = synthetic_months(Y, CAL.jdn(Y, 2, 5), 2, leap=({Y: L} if L else {Y + 1: 6}), prev_months=3, auto_leap=False)
        recs = [r for r in months if r['year'] == Y]
        nxt = [r for r in months if r['year'] == Y + 1][0]
        return ([r['month'] for r in recs], len(recs), nxt['first'] - recs[0]['first'], True)
    table(ctx, 'PETE-SCENARIO', 'LunarYear::get_months:leap-positions', list(range(0, 13)), listing, listing_orc,
          'a lunar year lists exactly its 12 months, or 13 with the leap month directly after its twin, for every leap position 1..12; month count and day count (= distance between new-year days) agree',
          lambda L: 'leap month %d' % L if L else 'no leap month', fn_site(p, 'LunarYear::get_months'))


def length_rule(ctx):
    """A month record's length is the distance to the next new-moon day, whatever that distance is.

    Real LunarMonth::new evaluated with the new-moon routine replaced by a synthetic sequence of new-moon days whose gaps include
    28 and 31 (the library's own fitted table has a 28-day lunation): day_count must be exactly the gap, and month k+1 must start
    where month k ends.  (Clamping or defaulting the length breaks the chain of days.)"""
    p = ctx.prog
    ctx.rule('PETE-STUB', 'real LunarMonth::new / next evaluated with the new-moon series stubbed: only guards, positions and stride relations are observed')
    I2 = ctx.interp(fuel=50000000)
    t2 = T(I2)
    gaps = [30, 29, 30, 28, 30, 29, 31, 29, 30, 29, 30, 29, 30, 30, 29, 30]
    base = -400

    def nm(k):       # k-th synthetic new-moon day (any integer k)
        q, r = divmod(k, len(gaps))
        return float(base + q * sum(gaps) + sum(gaps[:r]))

    def shuo(I_, r, a):
        x = float(a[0])
        k = int((x - base) // 29.5306)
        while nm(k + 1) <= x + 14.0:
            k += 1
        while nm(k) > x + 14.0:
            k -= 1
        return nm(k)
    I2.overrides['ShouXingUtil::calc_shuo'] = shuo
    I2.overrides['ShouXingUtil::calc_qi'] = lambda I_, r, a: float(int(a[0]))

    def rec(x):
        y, m = x
        v = I2.call('LunarMonth::new', [y, m]).v
        return (py(t2.m(t2.m(v, 'get_first_julian_day'), 'get_day')) - 2451545.0, py(t2.m(v, 'get_day_count')))

    def chain(y):
        out = []
        for m in range(1, 12):
            f0, c0 = rec((y, m))
            f1, _ = rec((y, m + 1))
            out.append((c0 == f1 - f0, f1 - f0 in gaps))
        return out
    common = [y for y in range(2001, 2100) if py(t2.m(I2.call('LunarYear::from_year', [y]), 'get_leap_month')) == 0][:3]
    table(ctx, 'PETE-STUB', 'LunarMonth::new:length=distance', common, chain, lambda y: [(True, True)] * 11,
          'a month\'s day count is exactly the distance between its new-moon day and the next one (synthetic new moons with 28..31-day gaps): no clamping, no default',
          str, fn_site(p, 'LunarMonth::new'))


def long_jump_rule(ctx, tbl=None):
    """LunarMonth::next(n) lands exactly n months along the stored table, for |n| from one year to three 19-year cycles (real next / new, series stubbed)"""
    p = ctx.prog
    ctx.rule('PETE-STUB', 'real LunarMonth::new / next evaluated with the new-moon series stubbed: only guards, positions and stride relations are observed')
    I2 = ctx.interp(fuel=100000000)
    t2 = T(I2)
    I2.overrides['ShouXingUtil::calc_shuo'] = lambda I_, r, a: float(int(a[0] * 1000.0))
    I2.overrides['ShouXingUtil::calc_qi'] = lambda I_, r, a: a[0]
    if tbl is None:
        try:
            tbl = leap_table(I2)
        except (Unanalysable, Bottom) as u:
            ctx.unanalysable('PETE-STUB', 'LunarMonth::next:long-jumps', str(u))
            return
    year_leap = {}
    for m, ys in tbl.items():
        for y in ys:
            year_leap[y] = m

    def months_of(y):
        L = year_leap.get(y, 0)
        seq = []
        for m in range(1, 13):
            seq.append(m)
            if m == L:
                seq.append(-m)
        return seq
    JBASE = 1900

    def flat_index(y, m):
        return sum(13 if yy in year_leap else 12 for yy in range(JBASE, y)) + months_of(y).index(m)

    def unflat(k):
        y = JBASE
        while True:
            c = 13 if y in year_leap else 12
            if k < c:
                return (y, months_of(y)[k])
            k -= c
            y += 1

    def jump(x):
        y, m, n = x
        r = t2.m(I2.call('LunarMonth::from_ym', [y, m]), 'next', n)
        return (py(t2.m(r, 'get_year')), py(t2.m(r, 'get_month_with_leap')))
    starts = [(1985, 1), (1985, 12), (2004, 1), (2022, 12), (2023, 2), (2023, -2), (2023, 12), (2033, -11), (2001, 5)]
    starts = [(y, m) for (y, m) in starts if m in months_of(y)]
    jdom = [(y, m, n) for (y, m) in starts for n in (12, 13, 14, 24, 25, 26, 37, 50, 100, 135, 234, 235, 236, 470, 705, -12, -13, -14, -25, -26, -37, -100, -234, -235, -236, -470)]
    table(ctx, 'PETE-STUB', 'LunarMonth::next:long-jumps', jdom, jump, lambda x: unflat(flat_index(x[0], x[1]) + x[2]),
          'stepping a month by n lands exactly n months along the stored table (12/13-month years), for |n| from one year to three 19-year cycles, from regular and leap months',
          str, fn_site(p, 'LunarMonth::next'))


def run(ctx, pid='C03'):
    ctx.exhaustive = False
    ctx.exhaustive_note = 'table rules are complete over the stored table; the stubbed-constructor rules use one sample year per leap-month position'
    from rules import shared
    ctx.include('effect_inventory', shared.effect_inventory)   # no new process-wide mutable state (MIR statics inventory)
    ctx.include('month_records', shared.month_records)   # leap table, solstice anchor, month memo, memo cells (shared, cached per source hash)
    I = ctx.interp(fuel=100000000)
    t = T(I)
    p = ctx.prog
    try:
        tbl = leap_table(I)
    except (Unanalysable, Bottom):
        tbl = None
    if tbl is not None:
        chain_rule(ctx, tbl, skip_reform=(pid == 'C04'))
    year_listing_rule(ctx)
    if pid == 'C03':
        fit_rule(ctx)
    if pid == 'C04':
        from rules import shared as _sh
        ctx.include('month_records', _sh.month_records)
        ctx.not_decided.append('agreement of the stored table and the month offsets with the library\'s own new-moon and major-term days (a relation between a literal and two float series)')
        return ('necessary conditions on the stored leap-month table (decoded by evaluating its own initialiser): column order, range, one leap month per year, '
                '2-3 year intercalation gaps outside the code\'s own reform windows, 7+-1 leap months per 19 years; and the solstice-month anchoring logic of '
                'LunarMonth::new against a uniform-lunation model for all 30 lunar phases at the solstice')
    ctx.rule('PETE-TABLE', 'finite table vs oracle')
    ctx.rule('PETE-STUB', 'real LunarMonth::new / next evaluated with the new-moon series stubbed: only guards, positions and stride relations are observed')
    if tbl is None:
        return 'leap table could not be decoded'
    year_leap = {}
    for m, ys in tbl.items():
        for y in ys:
            year_leap[y] = m

    # 12 / 13 months and leap month for every year, from the reader
    def lm(y):
        ly = I.call('LunarYear::from_year', [y])
        return (py(t.m(ly, 'get_leap_month')), py(t.m(ly, 'get_month_count')))
    table(ctx, 'PETE-TABLE', 'LunarYear::get_leap_month', range(-1, 10000), lm, lambda y: ((11 if y == -1 else year_leap.get(y, 0)), 13 if (y == -1 or y in year_leap) else 12),
          'leap month lookup agrees with the decoded table for every year; 13 months iff a leap month', str, fn_site(p, 'LunarYear::get_leap_month'))

    # real new()/next() with the series stubbed
    I2 = ctx.interp(fuel=100000000)
    t2 = T(I2)
    I2.overrides['ShouXingUtil::calc_shuo'] = lambda I_, r, a: float(int(a[0] * 1000.0))
    I2.overrides['ShouXingUtil::calc_qi'] = lambda I_, r, a: a[0]
    sample = {}
    for L in range(1, 13):
        ys = [y for y in tbl.get(L, []) if 1000 < y < 9000]
        if ys:
            sample[L] = ys[len(ys) // 2]
    common = [y for y in range(2001, 2100) if y not in year_leap][0]
    ctx.floor('PETE-STUB', 'leap-month positions with a sample year', len(sample), 12)

    def acc(x):
        y, m = x
        r = I2.call('LunarMonth::new', [y, m])
        if not r.ok:
            return None
        v = r.v
        return (py(t2.m(v, 'get_month')), t2.m(v, 'is_leap'), py(t2.m(v, 'get_index_in_year')), py(t2.m(v, 'get_month_with_leap')), py(t2.m(v, 'get_year')))

    def acc_orc(x):
        y, m = x
        L = year_leap.get(y, 0)
        if m == 0 or abs(m) > 12:
            return None
        if m < 0 and -m != L:
            return None
        idx = abs(m) - 1
        if m < 0 or (L > 0 and abs(m) > L):
            idx += 1
        return (abs(m), m < 0, idx, m, y)
    dom = [(y, m) for y in list(sample.values()) + [common] for m in range(-14, 15)]
    table(ctx, 'PETE-STUB', 'LunarMonth::new:guards+position', dom, acc, acc_orc,
          'a lunar month is accepted iff 1<=|m|<=12 and (leap => it is the year\'s leap month); its position in the year counts the leap month right after its twin', str, fn_site(p, 'LunarMonth::new'))

    # next() walks positions in order and back (all 13x13 leap positions), incl. into the neighbouring years
    def year_seq(y):
        L = year_leap.get(y, 0)
        seq = []
        for m in range(1, 13):
            seq.append((y, m))
            if m == L:
                seq.append((y, -m))
        return seq

    def walk_year(y):
        # three consecutive lunar years walked forwards, then backwards, in one process (the month memo is live)
        m = I2.call('LunarMonth::from_ym', [y - 1, 1])
        fwd = []
        n = len(year_seq(y - 1)) + len(year_seq(y)) + len(year_seq(y + 1))
        for _ in range(n):
            fwd.append((py(t2.m(m, 'get_year')), py(t2.m(m, 'get_month_with_leap')), py(t2.m(m, 'get_index_in_year'))))
            m = t2.m(m, 'next', 1)
        back = []
        zero = []
        for _ in range(n):
            m = t2.m(m, 'next', -1)
            back.append((py(t2.m(m, 'get_year')), py(t2.m(m, 'get_month_with_leap'))))
            z = t2.m(m, 'next', 0)
            zero.append((py(t2.m(z, 'get_year')), py(t2.m(z, 'get_month_with_leap'))))
        return (fwd, back, zero == back)

    def walk_orc(y):
        seq = year_seq(y - 1) + year_seq(y) + year_seq(y + 1)
        fwd = []
        for yy in (y - 1, y, y + 1):
            for i, (a, b) in enumerate(year_seq(yy)):
                fwd.append((a, b, i))
        return (fwd, list(reversed(seq)), True)
    wy = [y for y in list(sample.values()) + [common] if (y - 1) not in reform_years(p) and y not in reform_years(p)]
    table(ctx, 'PETE-STUB', 'LunarMonth::next:order', wy, walk_year, walk_orc,
          'stepping month by month through three lunar years visits 1..12 with the leap month directly after its twin, positions counting up; stepping back retraces the same months; stepping by 0 is the identity (also on a leap month)', str, fn_site(p, 'LunarMonth::next'))

    long_jump_rule(ctx, tbl)

    # stride: with calc_shuo(x) = trunc(1000 x), first(k+1) - first(k) must equal the length computed for month k
    def stride(x):
        y, k = x
        seqm = [b for a, b in year_seq(y)]
        a = I2.call('LunarMonth::new', [y, seqm[k]]).v
        b = I2.call('LunarMonth::new', [y, seqm[k + 1]]).v
        fa = t2.m(t2.m(a, 'get_first_julian_day'), 'get_day')
        fb = t2.m(t2.m(b, 'get_first_julian_day'), 'get_day')
        return abs((fb - fa) - py(t2.m(a, 'get_day_count'))) <= 1
    table(ctx, 'PETE-STUB', 'LunarMonth::new:stride', [(y, k) for y in (sample[4], common) for k in range(0, 11)], stride, lambda x: True,
          'inside a year month k+1 starts where month k ends: the seed stride of "this month" and "next month" is the same constant', str, fn_site(p, 'LunarMonth::new'))

    ctx.not_decided.append('29/30-day lengths and 353-385-day years depend on the new-moon series (numeric); abutting across lunar years is decided only as the lunation-count identity of TILE-CHAIN')
    ctx.not_decided.append('the month chain also breaks at lunar years 239/240 (inside a reform window, passes the 12-or-13 bound of TILE-CHAIN): not decided, DESIGN 10.3')
    ctx.assumptions.append('LunarYear::get_day_count / get_months container structure is decided on scenario calendars in C13')
    return ('the packed leap-month table (decoded by its own initialiser) checked for order, range, uniqueness and intercalation rhythm; the leap lookup for every year; '
            'real LunarMonth::new / next evaluated with the new-moon series stubbed for guards, month<->position maps (all 13 leap positions) and stride agreement')
