# -*- coding: utf-8 -*-
"""C12 — clock arithmetic to the second and Julian-date <-> clock conversion.

  * SolarTime::next / subtract / is_before / is_after: real integer carry code evaluated with the day
    layer replaced by the calendar oracle, on instants at every carry boundary (second, minute, hour,
    day, month, year, the 1582 gap) and step sizes around every unit;
  * instant -> Julian date -> instant with the REAL float formulas on sampled instants (every second of
    one hour, a stride across the day, on month ends / leap days / the gap / range ends);
  * fractional Julian dates just below every carry boundary must yield a valid instant within 0.5 s.
"""
from rlib import T, table, py, fn_site, Bottom, Unanalysable
from pete import SV, RInt
from calmodel import CalModel
import calendar_oracle as CAL


def abs_sec(x):
    y, m, d, h, mi, s = x
    return CAL.jdn(y, m, d) * 86400 + h * 3600 + mi * 60 + s


def from_abs(a):
    n, sec = divmod(a, 86400)
    y, m, d = CAL.from_jdn(n)
    return (y, m, d, sec // 3600, sec // 60 % 60, sec % 60)


def jd_clock_rules(ctx):
    """the real Julian-date -> clock formulas on sampled instants: round trip and the carries second -> minute -> hour -> next day"""
    p = ctx.prog
    ctx.rule('JD-CLOCK', 'real Julian-date float formulas evaluated on sampled instants: round trip and half-second validity')
    # ---- real float formulas
    I2 = ctx.interp(fuel=30000000)
    I2.forbidden.discard('JulianDay::from_ymd_hms')
    I2.forbidden.discard('JulianDay::get_solar_time')
    t2 = T(I2)

    def st2(x):
        return I2.call('SolarTime::from_ymd_hms', list(x))

    def tup2(v):
        return (py(t2.m(v, 'get_year')), py(t2.m(v, 'get_month')), py(t2.m(v, 'get_day')), py(t2.m(v, 'get_hour')), py(t2.m(v, 'get_minute')), py(t2.m(v, 'get_second')))
    sample_days = [(1, 1, 1), (4, 2, 29), (1582, 10, 4), (1582, 10, 15), (1600, 2, 29), (1900, 2, 28), (2000, 1, 1), (2023, 1, 31), (2024, 2, 29), (2024, 12, 31), (5000, 6, 30), (9999, 12, 31)]
    secs = sorted(set(list(range(23 * 3600, 86400)) + list(range(0, 86400, 1237)) + [0, 1, 59, 60, 61, 3599, 3600, 43199, 43200, 43201]))
    rt_dom = [(d + (s // 3600, s // 60 % 60, s % 60)) for d in sample_days for s in (secs if d in ((2023, 1, 31), (1582, 10, 4)) else secs[::7] + [86399])]

    def roundtrip(x):
        v = st2(x)
        return tup2(t2.m(t2.m(v, 'get_julian_day'), 'get_solar_time'))
    table(ctx, 'JD-CLOCK', 'JD:roundtrip', rt_dom, roundtrip, lambda x: x, 'instant -> Julian date -> instant returns the same instant (real float formulas; month ends, leap days, the gap, range ends)',
          str, fn_site(p, 'JulianDay::get_solar_time'))

    # fractional Julian dates just below carry boundaries: must be a valid instant within half a second
    def frac(x):
        (y, m, d, h, mi, s), off = x
        jd = CAL.jdn(y, m, d) - 0.5 + (h * 3600 + mi * 60 + s + off) / 86400.0
        v = t2.m(SV('JulianDay', {'day': jd}), 'get_solar_time')
        got = tup2(v)
        a = abs_sec(got)
        target = abs_sec((y, m, d, h, mi, s)) + off
        return (CAL.exists(got[0], got[1], got[2]) and got[3] <= 23 and got[4] <= 59 and got[5] <= 59, abs(a - target) <= 0.5 + 1e-3)
    fr_base = [(2023, 1, 31, 23, 59, 59), (2023, 1, 30, 23, 59, 59), (2023, 6, 16, 23, 59, 59), (2024, 2, 29, 23, 59, 59), (2024, 12, 31, 23, 59, 59), (1582, 10, 4, 23, 59, 59),
               (2023, 6, 16, 11, 59, 59), (2023, 6, 16, 11, 58, 59), (2023, 6, 16, 0, 0, 0), (2023, 6, 16, 12, 0, 0), (2000, 2, 28, 23, 59, 59), (1999, 12, 31, 23, 59, 59),
               (1582, 10, 15, 23, 59, 59), (1582, 10, 21, 23, 59, 59), (1582, 10, 30, 23, 59, 59), (1582, 10, 31, 23, 59, 59), (1582, 10, 3, 23, 59, 59), (9999, 12, 30, 23, 59, 59)]
    table(ctx, 'JD-CLOCK', 'JD:fractional', [(b, off) for b in fr_base for off in (-0.49, -0.3, 0.0, 0.3, 0.49, 0.51, 0.7, 0.99)], frac, lambda x: (True, True),
          'any fractional Julian date yields a valid instant within half a second (carries 60->minute, 60->hour, 24->next day incl. month/year ends)', str, fn_site(p, 'JulianDay::get_solar_time'))



def run(ctx):
    ctx.exhaustive = False
    ctx.exhaustive_note = 'carry tables complete over the listed boundary set; Julian-date round trip on ~12,600 sampled instants'
    from rules import shared
    ctx.include('effect_inventory', shared.effect_inventory)   # no new process-wide mutable state (MIR statics inventory)
    ctx.include('jd_tables', shared.jd_tables)           # civil date <-> day number per (year, month) (shared, cached per source hash)
    I = ctx.interp(fuel=30000000)
    t = T(I)
    p = ctx.prog
    ctx.rule('PETE-CAL', 'integer clock code evaluated with the day layer = calendar oracle, vs absolute-second arithmetic')
    ctx.rule('CMP', 'comparator decision table == lexicographic order on (day, hour, minute, second)')
    ctx.rule('JD-CLOCK', 'real Julian-date float formulas evaluated on sampled instants: round trip and half-second validity')
    ctx.rule('PETE-TABLE', 'guard grid')
    cm = CalModel(I, {}, [])

    def st(x):
        return cm.solar_time(*x)

    def tup(v):
        return cm.ymd_of(v.f['day']) + (v.f['hour'].v, v.f['minute'].v, v.f['second'].v)

    base = [(2023, 1, 31, 23, 59, 59), (2023, 1, 31, 0, 0, 0), (1582, 10, 4, 23, 59, 30), (1582, 10, 15, 0, 0, 10), (2000, 2, 29, 12, 0, 0), (2024, 12, 31, 23, 59, 0),
            (2024, 3, 1, 0, 0, 1), (1900, 2, 28, 23, 0, 0), (2023, 6, 15, 11, 59, 59), (2, 1, 1, 0, 0, 0), (9998, 12, 31, 23, 59, 59)]
    steps = sorted(set([0] + [s * k for s in (1, -1) for k in (1, 2, 59, 60, 61, 119, 3599, 3600, 3601, 7200, 86399, 86400, 86401, 172800, 864000, 950400, 31536000, 31622400, 1000003)]))
    dom = [(b, n) for b in base for n in steps if 1721424 * 86400 <= abs_sec(b) + n < (CAL.jdn(9999, 12, 31) + 1) * 86400]
    table(ctx, 'PETE-CAL', 'SolarTime::next', dom, lambda x: tup(t.m(st(x[0]), 'next', x[1])), lambda x: from_abs(abs_sec(x[0]) + x[1]),
          'adding n seconds yields the instant exactly n seconds later (second/minute/hour/day carries, month and year ends, the 1582 gap)', str, fn_site(p, 'SolarTime::next'))

    def sub(x):
        a, b = x
        A, B = st(a), st(b)
        return (py(t.m(A, 'subtract', B)), t.m(A, 'is_before', B), t.m(A, 'is_after', B), I.values_equal(A, B))

    def sub_orc(x):
        d = abs_sec(x[0]) - abs_sec(x[1])
        return (d, d < 0, d > 0, d == 0)
    inst = base + [(1500, 2, 28, 12, 0, 0), (1500, 3, 1, 12, 0, 0), (1500, 12, 31, 0, 0, 1), (100, 3, 1, 0, 0, 0), (100, 2, 28, 23, 59, 59), (2023, 1, 31, 23, 59, 58), (2023, 1, 31, 23, 58, 59), (2023, 1, 31, 22, 59, 59), (2023, 2, 1, 0, 0, 0), (1582, 10, 15, 0, 0, 9), (1582, 10, 4, 23, 59, 50)]
    table(ctx, 'PETE-CAL', 'SolarTime::subtract', [(a, b) for a in inst for b in inst], sub, sub_orc,
          'the difference of two instants is their distance in seconds; before/after coincide with its sign', str, fn_site(p, 'SolarTime::subtract'))

    # comparator decision table over all order types of (day, hour, minute, second)
    grid = [(2023, 1, d, h, mi, s) for d in (30, 31) for h in (5, 6) for mi in (7, 8) for s in (9, 10)]
    # extreme clock fields and days that differ only in month / only in year (the day comparator is part of the instant comparator)
    grid += [(y, 3, 5, 12, 0, 0) for y in (9, 10, 99, 100, 999, 1000)]
    grid += [(y, m, 5, h, mi, s) for y in (2023, 2024) for m in (3, 7) for (h, mi, s) in ((0, 0, 0), (23, 59, 59), (0, 59, 0), (23, 0, 59))]

    def cmp3(ab):
        A, B = st(ab[0]), st(ab[1])
        return (t.m(A, 'is_before', B), t.m(A, 'is_after', B), I.values_equal(A, B))
    table(ctx, 'CMP', 'CMP:SolarTime', [(a, b) for a in grid for b in grid], cmp3, lambda ab: (ab[0] < ab[1], ab[0] > ab[1], ab[0] == ab[1]),
          'is_before / is_after / == of instants over all 81 order types', str, fn_site(p, 'SolarTime::is_before'))

    # guards
    g = [(h, mi, s) for h in (0, 23, 24, 25) for mi in (0, 59, 60, 61) for s in (0, 59, 60, 61)]
    table(ctx, 'PETE-TABLE', 'SolarTime::new', g, lambda x: I.call('SolarTime::new', [2000, 1, 1, x[0], x[1], x[2]]).ok, lambda x: x[0] <= 23 and x[1] <= 59 and x[2] <= 59,
          'an instant is accepted iff hour<=23, minute<=59, second<=59', str, fn_site(p, 'SolarTime::new'))

    # ---- real float formulas: part of the shared bundle jd_tables (every property that turns term instants into days relies on them)

    ctx.assumptions.append('civil date <-> day number replaced by the calendar oracle for the integer clock code (C01 decides that layer)')
    ctx.not_decided.append('round trip for every second of every day 0001-9999 (sampled: 12 days incl. all calendar corner cases; per-second exhaustive enumeration refused)')
    return ('clock carry code as finite tables at every carry boundary; comparator decision table; the real Julian-date float formulas evaluated on sampled '
            'instants for round trip and half-second validity incl. day carries at month ends')
