# -*- coding: utf-8 -*-
"""Range-end rules: the first and last civil days / lunar years of the supported calendar.

The scenario calendars of the other rules sit in ordinary years, where every neighbouring term, month and day exists.
At 0001-01 and 9999-12 (lunar years 0 and 9999) the *governing* term or the *next* month may lie outside the supported
range although the day asked about is inside it: code that materialises such a neighbour as a civil day or a lunar month
is refused by the library's own constructors.  The model refuses them exactly like the real constructors do
(calendar oracle `exists`, real `LunarYear::from_year` guard), so such a refusal surfaces here as a failed obligation.

Term placement is the real one of those eras: winter solstice near December 15 / Xiaohan near December 30 in 9999
(Gregorian drift), winter solstice near December 23 in year 0 (Julian calendar).
"""
from rlib import T, table, py, fn_site, Bottom, Unanalysable
from calmodel import CalModel, typical_terms, synthetic_months
import calendar_oracle as CAL
import ganzhi as G

LAST = CAL.jdn(9999, 12, 31)
FIRST = CAL.jdn(1, 1, 1)


def edge_scenarios():
    """[(name, terms, months, days)] for the two ends of the civil range"""
    end_terms = typical_terms(range(9998, 10002), shift=dict((i, -7) for i in range(24)))
    end_months = synthetic_months(9999, CAL.jdn(9999, 2, 6), 1, prev_months=3, auto_leap=False)
    start_terms = typical_terms(range(0, 3), shift=dict((i, 1) for i in range(24)))
    start_months = synthetic_months(1, CAL.jdn(1, 2, 11), 1, prev_months=3, auto_leap=False)
    return [('last days of 9999', end_terms, end_months, list(range(LAST - 20, LAST + 1))),
            ('first days of 0001', start_terms, start_months, list(range(FIRST, FIRST + 21)))]


def fmt(scen):
    return lambda x: '%s %d-%02d-%02d' % ((scen[x[0]][0],) + CAL.from_jdn(x[1]))


def c06_edge(ctx, I, t):
    p = ctx.prog
    scen = edge_scenarios()
    ctx.rule('RANGE-END', 'the first and last days / lunar years of the supported range: the answer exists although a neighbouring term, month or day lies outside the range')

    def term_of_day(x):
        si, n = x
        cm = CalModel(I, scen[si][1], scen[si][2])
        td = t.m(cm.solar_day_n(n), 'get_term_day')
        st = t.m(td, 'get_solar_term')
        return (py(t.m(st, 'get_year')), py(t.m(st, 'get_index')), py(t.m(td, 'get_day_index')))

    def term_of_day_orc(x):
        si, n = x
        tm = scen[si][1]
        tn, (ty, ti) = max((v[0], k) for k, v in tm.items() if v[0] <= n)
        return (ty, ti, n - tn)
    table(ctx, 'RANGE-END', 'RANGE:SolarDay::get_term_day', [(si, n) for si in range(len(scen)) for n in scen[si][3]], term_of_day, term_of_day_orc,
          'every day of 0001-01 and 9999-12 has a term day: the latest term on or before it (which starts in year 0) resp. without needing the next term\'s civil day (which is in year 10000)',
          fmt(scen), fn_site(p, 'SolarDay::get_term_day'))

    def term_of_time(x):
        si, n, s = x
        cm = CalModel(I, scen[si][1], scen[si][2])
        st = t.m(cm.solar_time_n(n, s), 'get_term')
        return (py(t.m(st, 'get_year')), py(t.m(st, 'get_index')))

    def term_of_time_orc(x):
        si, n, s = x
        tm = scen[si][1]
        _, (ty, ti) = max(((v[0], int(v[1] + 0.5)), k) for k, v in tm.items() if (v[0], int(v[1] + 0.5)) <= (n, s))
        return (ty, ti)
    dom = [(si, n, s) for si in range(len(scen)) for n in (scen[si][3][:3] + scen[si][3][-3:]) for s in (0, 43200, 86399)]
    table(ctx, 'RANGE-END', 'RANGE:SolarTime::get_term', dom, term_of_time, term_of_time_orc,
          'every instant of the first and last days of the range has a governing term',
          lambda x: '%s %d-%02d-%02d +%ds' % ((scen[x[0]][0],) + CAL.from_jdn(x[1]) + (x[2],)), fn_site(p, 'SolarTime::get_term'))


def c07_edge(ctx, I, t):
    p = ctx.prog
    scen = edge_scenarios()
    ctx.rule('RANGE-END', 'the first and last days / lunar years of the supported range: the answer exists although a neighbouring term, month or day lies outside the range')

    def routes(x):
        si, n = x
        cm = CalModel(I, scen[si][1], scen[si][2])
        d = cm.solar_day_n(n)
        a = t.idx(t.m(t.m(d, 'get_sixty_cycle_day'), 'get_sixty_cycle'))
        b = t.idx(t.m(t.m(d, 'get_lunar_day'), 'get_sixty_cycle'))
        c = t.idx(t.m(t.m(t.m(d, 'get_lunar_day'), 'get_sixty_cycle_day'), 'get_sixty_cycle'))
        w = t.idx(t.m(d, 'get_week'))
        return (a, b, c, w)
    table(ctx, 'RANGE-END', 'RANGE:day-pillar-routes', [(si, n) for si in range(len(scen)) for n in (scen[si][3][:6] + scen[si][3][-6:])], routes,
          lambda x: ((x[1] + 49) % 60,) * 3 + ((x[1] + 1) % 7,),
          'the sexagenary-day view, the lunar date and the lunar date\'s sexagenary-day view give the pillar (n+49) mod 60 on the first and last days of the range too',
          fmt(scen), fn_site(p, 'SixtyCycleDay::from_solar_day'))


def c08_edge(ctx, I, t):
    from rules.c08 import oracle_day
    p = ctx.prog
    scen = edge_scenarios()
    ctx.rule('RANGE-END', 'the first and last days / lunar years of the supported range: the answer exists although a neighbouring term, month or day lies outside the range')

    def view(x):
        si, n = x
        cm = CalModel(I, scen[si][1], scen[si][2])
        d = I.call('SixtyCycleDay::from_solar_day', [cm.solar_day_n(n)])
        return (t.name(t.m(d, 'get_year')), t.name(t.m(d, 'get_month')))

    def view_orc(x):
        si, n = x
        return oracle_day(scen[si][1], CAL.from_jdn(n)[0], n)
    table(ctx, 'RANGE-END', 'RANGE:SixtyCycleDay::from_solar_day', [(si, n) for si in range(len(scen)) for n in scen[si][3]], view, view_orc,
          'year and month pillars of the first days of 0001 (governing Jie and Lichun rule reach into year 0) and the last days of 9999',
          fmt(scen), fn_site(p, 'SixtyCycleDay::from_solar_day'))
    c08_edge_instant(ctx, I, t)


def c08_edge_instant(ctx, I, t):
    from rules.c08 import oracle_time
    p = ctx.prog
    scen = edge_scenarios()

    def view(x):
        si, n, s_ = x
        cm = CalModel(I, scen[si][1], scen[si][2])
        h = I.call('SixtyCycleHour::from_solar_time', [cm.solar_time_n(n, s_)])
        return (t.name(t.m(h, 'get_year')), t.name(t.m(h, 'get_month')), t.idx(t.m(h, 'get_day')))

    def view_orc(x):
        si, n, s_ = x
        return oracle_time(scen[si][1], CAL.from_jdn(n)[0], n, s_) + (((n + 49) % 60 + (1 if s_ >= 82800 else 0)) % 60,)
    dom = [(si, n, s_) for si in range(len(scen)) for n in (scen[si][3][:8] + scen[si][3][-8:]) for s_ in (0, 43200, 84600) if not (si == 0 and n == LAST and s_ >= 82800)]
    table(ctx, 'RANGE-END', 'RANGE:SixtyCycleHour::from_solar_time', dom, view, view_orc,
          'instant-level year / month / day pillars on the first days of 0001 (governing Jie in year 0) and the last days of 9999 (23:xx of the very last day excepted: its day pillar is that of a day outside the range)',
          lambda x: '%s %d-%02d-%02d +%ds' % ((scen[x[0]][0],) + CAL.from_jdn(x[1]) + (x[2],)), fn_site(p, 'SixtyCycleHour::from_solar_time'))


def c13_edge(ctx, I, t):
    p = ctx.prog
    ctx.rule('RANGE-END', 'the first and last days / lunar years of the supported range: the answer exists although a neighbouring term, month or day lies outside the range')
    months = synthetic_months(9999, CAL.jdn(9999, 2, 6), 1, prev_months=3, auto_leap=False)

    def lyear(y):
        cm = CalModel(I, {}, months)
        ly = I.call('LunarYear::from_year', [y])
        ms = t.m(ly, 'get_months')
        return ([py(t.m(m, 'get_month_with_leap')) for m in ms], py(t.m(ly, 'get_month_count')), py(t.m(ly, 'get_day_count')))

    def lyear_orc(y):
        recs = [r for r in months if r['year'] == y]
        return ([r['month'] for r in recs], len(recs), sum(r['count'] for r in recs))
    table(ctx, 'RANGE-END', 'RANGE:LunarYear::get_months', [9999], lyear, lyear_orc,
          'the last supported lunar year lists its months and has a day count (no month of lunar year 10000 is needed for that)', str, fn_site(p, 'LunarYear::get_months'))


def c09_edge(ctx, I, t):
    """inverse search for instants on the first / last days of the range, searched over a year range that starts / ends there"""
    p = ctx.prog
    scen = edge_scenarios()
    ctx.rule('RANGE-END', 'the first and last days / lunar years of the supported range: the answer exists although a neighbouring term, month or day lies outside the range')

    def search(x):
        si, inst, rng = x
        CalModel(I, scen[si][1], scen[si][2])
        cm = CalModel(I, scen[si][1], scen[si][2])
        ec = t.m(t.m(cm.solar_time(*inst), 'get_lunar_hour'), 'get_eight_char')
        want = t.name(ec)
        res = t.m(ec, 'get_solar_times', rng[0], rng[1])
        sound = all(t.name(t.m(t.m(r, 'get_lunar_hour'), 'get_eight_char')) == want for r in res)
        inside = any((py(t.m(r, 'get_year')), py(t.m(r, 'get_month')), py(t.m(r, 'get_day'))) == inst[:3] and (py(t.m(r, 'get_hour')) + 1) // 2 == (inst[3] + 1) // 2 for r in res)
        return (sound, inside)
    dom_start = [(1, (1, 1, 2, 12, 0, 0), (1, 30)), (1, (1, 1, 4, 8, 0, 0), (1, 1)), (1, (1, 1, 20, 10, 0, 0), (1, 30)), (1, (1, 2, 12, 10, 0, 0), (1, 1))]
    dom_end = [(0, (9999, 12, 12, 10, 0, 0), (9960, 9999)), (0, (9999, 12, 20, 14, 0, 0), (9999, 9999)), (0, (9999, 12, 31, 10, 0, 0), (9999, 9999)), (0, (9999, 12, 30, 10, 0, 0), (9999, 9999))]
    f_ = lambda x: '%s searched over %s' % ('%04d-%02d-%02d %02d:00' % x[1][:4], x[2])
    table(ctx, 'RANGE-END', 'RANGE:EightChar::get_solar_times:first-year', dom_start, search, lambda x: (True, True),
          'the inverse search finds an instant of January / February 0001 when the searched range starts with year 1 (its year pillar is that of year 0 before Lichun)',
          f_, fn_site(p, 'EightChar::get_solar_times'))
    table(ctx, 'RANGE-END', 'RANGE:EightChar::get_solar_times:last-year', dom_end, search, lambda x: (True, True),
          'the inverse search finds an instant of December 9999 when the searched range ends with year 9999', f_, fn_site(p, 'EightChar::get_solar_times'))

    # characters whose only candidate day in the last sexagenary month(s) of 9999 would fall in January 10000: the answer is "no instant", not a failure
    def absent(x):
        si, inst, k, rng = x
        cm = CalModel(I, scen[si][1], scen[si][2])
        ec = t.m(t.m(cm.solar_time(*inst), 'get_lunar_hour'), 'get_eight_char')
        ec2 = I.call('EightChar::from_sixty_cycle', [t.m(ec, 'get_year'), t.m(ec, 'get_month'), t.m(t.m(ec, 'get_day'), 'next', k), t.m(ec, 'get_hour')])
        res = t.m(ec2, 'get_solar_times', rng[0], rng[1])
        return [I.display(r) for r in res if py(t.m(r, 'get_year')) == 9999 and py(t.m(r, 'get_month')) >= 11]
    dom_abs = [(0, (9999, 12, 20, 10, 0, 0), 30, (9999, 9999)), (0, (9999, 12, 30, 10, 0, 0), 10, (9999, 9999))]
    table(ctx, 'RANGE-END', 'RANGE:EightChar::get_solar_times:last-year:absent', dom_abs, absent, lambda x: [],
          'eight characters whose day pillar next occurs in January 10000 (same year and month pillars as an instant of December 9999): the search over a range ending with 9999 returns no instant of that month instead of failing',
          lambda x: '%s with the day pillar moved %d places, searched over %s' % ('%04d-%02d-%02d %02d:00' % x[1][:4], x[2], x[3]), fn_site(p, 'EightChar::get_solar_times'))


def day_star_on(ctx, I, t, scen, picks, key, what, rule):
    """day nine star through the real civil -> sexagenary / lunar day routes on scenario calendars vs the solstice / Jiazi rule"""
    p = ctx.prog

    def nearest_jiazi(n):
        idx = (n + 49) % 60
        return n + (60 - idx) if idx > 29 else n - idx

    def orc(x):
        si, n = x
        y = CAL.from_jdn(n)[0]
        tm = scen[si][1]
        s1, ni, s2 = nearest_jiazi(tm[(y, 0)][0]), nearest_jiazi(tm[(y, 12)][0]), nearest_jiazi(tm[(y + 1, 0)][0])
        if n < s1:
            return None          # before the first turning day of the civil year: not judged (see not_decided)
        elif n < ni:
            v = (n - s1) % 9
        elif n < s2:
            v = (8 - (n - ni)) % 9
        else:
            v = (n - s2) % 9
        return (v, v)

    def star(x):
        si, n = x
        cm = CalModel(I, scen[si][1], scen[si][2])
        d = cm.solar_day_n(n)
        return (t.idx(t.m(t.m(d, 'get_sixty_cycle_day'), 'get_nine_star')), t.idx(t.m(t.m(d, 'get_lunar_day'), 'get_nine_star')))
    allp = picks(nearest_jiazi)
    dom = [x for x in allp if orc(x) is not None]
    table(ctx, rule, key, dom, star, orc, what, fmt(scen), fn_site(p, 'LunarDay::get_nine_star'))
    early = [x for x in allp if orc(x) is None]
    if early:
        # before the first turning day of the civil year no independent rule is asserted, but the two copies of the routine must still agree
        table(ctx, 'SIB-AGREE', key + ':copies-agree', early, lambda x: len(set(star(x))) == 1, lambda x: True,
              'the lunar-day and sexagenary-day copies of the day-star routine give the same star on the days before the first turning day of the civil year', fmt(scen), fn_site(p, 'SixtyCycleDay::get_nine_star'))


def c17_edge(ctx, I, t):
    """day nine star in the first supported civil year: the solstice that starts its ascending run lies in December of year 0"""
    scen = edge_scenarios()
    ctx.rule('RANGE-END', 'the first and last days / lunar years of the supported range: the answer exists although a neighbouring term, month or day lies outside the range')

    def picks(nearest_jiazi):
        dom = []
        for si, y in ((1, 1),):       # the property's quantifier is 0001..9998: the last year is outside it
            lo = max(nearest_jiazi(scen[si][1][(y, 0)][0]), CAL.jdn(y, 1, 1))
            covered = lambda n: any(r['first'] <= n < r['first'] + r['count'] for r in scen[si][2])
            dom += [(si, n) for n in (lo + 3, CAL.jdn(y, 3, 1), CAL.jdn(y, 7, 20), CAL.jdn(y, 11, 30), CAL.jdn(y, 12, 31)) if covered(n)]
        return dom
    day_star_on(ctx, I, t, scen, picks, 'RANGE:day-nine-star:first-year',
                'the day star of days of year 1 (the winter solstice that starts its ascending run lies in December of year 0)', 'RANGE-END')


def c17_routes(ctx, I, t):
    """day nine star through the real date routes in an ordinary year, incl. the days of January before the lunar new year (lunar year != civil year)"""
    Y = 2000
    scen = []
    for name, shift in (('modern', 0), ('julian-era (-12 d)', -12)):
        tm = typical_terms(range(Y - 2, Y + 3), shift=dict((i, shift) for i in range(24)))
        scen.append((name, tm, synthetic_months(Y - 1, CAL.jdn(Y - 1, 2, 16), 3, leap={Y: 4}, prev_months=3, auto_leap=False)))
    ctx.rule('PETE-SCENARIO', 'almanac getters reached through the real date routes on scenario calendars')

    def picks(nearest_jiazi):
        dom = []
        for si in range(len(scen)):
            dom += [(si, n) for n in list(range(CAL.jdn(Y, 1, 1), CAL.jdn(Y, 2, 12), 4)) + [CAL.jdn(Y, 3, 1), CAL.jdn(Y, 6, 20), CAL.jdn(Y, 7, 25), CAL.jdn(Y, 12, 20), CAL.jdn(Y, 12, 31)]]
        return dom
    day_star_on(ctx, I, t, scen, picks, 'day-nine-star:date-routes',
                'the day star reached from a civil date through both views follows the solstice / Jiazi rule of the CIVIL year, also in January before the lunar new year', 'PETE-SCENARIO')

    # day officer / day spirit through the real construction of the sexagenary day: the month branch is the one of the governing Jie (not of the civil or lunar month)
    from rules.c08 import oracle_day
    from rules.c17 import DUTY, twelve_oracle
    p = ctx.prog

    def officer(x):
        si, n = x
        cm = CalModel(I, scen[si][1], scen[si][2])
        d = cm.solar_day_n(n)
        scd = t.m(d, 'get_sixty_cycle_day')
        ld = t.m(d, 'get_lunar_day')
        return (t.name(t.m(scd, 'get_duty')), t.name(t.m(scd, 'get_twelve_star')), t.name(t.m(ld, 'get_duty')), t.name(t.m(ld, 'get_twelve_star')))

    def officer_orc(x):
        si, n = x
        yp, mp = oracle_day(scen[si][1], CAL.from_jdn(n)[0], n)
        mb = G.BRANCHES.index(mp[1])
        db = ((n + 49) % 60) % 12
        a, b = DUTY[(db - mb) % 12], twelve_oracle(mb, db)
        return (a, b, a, b)
    odom = [(si, n) for si in range(len(scen)) for n in range(CAL.jdn(Y, 1, 1), CAL.jdn(Y, 12, 31), 3)]
    table(ctx, 'PETE-SCENARIO', 'day-officer/spirit:date-routes', odom, officer, officer_orc,
          'day officer and day spirit reached from a civil date use the month branch of the governing Jie (modern and Julian-era term placements; every third day of a year)',
          fmt(scen), fn_site(p, 'SixtyCycleDay::get_duty'))


def c15_edge(ctx, I, t):
    """term-anchored day series on the first days of 0001 and the last days of 9999: the anchoring term (a December term of year 0) or the
    end of the series (in year 10000) lies outside the civil range although the day asked about is inside it"""
    from rules.c15 import COMMAND, TYPE_NAMES, TERMS
    p = ctx.prog
    scen = edge_scenarios()
    ctx.rule('RANGE-END', 'the first and last days / lunar years of the supported range: the answer exists although a neighbouring term, month or day lies outside the range')
    nine_names = t.names('NINE_NAMES')
    ph_names = t.names('PHENOLOGY_NAMES')
    dom = [(si, n) for si in range(len(scen)) for n in scen[si][3]]

    def nine(x):
        si, n = x
        cm = CalModel(I, scen[si][1], scen[si][2])
        r = t.m(cm.solar_day_n(n), 'get_nine_day')
        return (t.name(t.m(r.v, 'get_nine')), py(t.m(r.v, 'get_day_index'))) if r.some else None

    def nine_orc(x):
        si, n = x
        for (ty, ti), (tn, ts) in scen[si][1].items():
            if ti == 0 and tn <= n < tn + 81:
                return (nine_names[(n - tn) // 9], (n - tn) % 9)
        return None
    table(ctx, 'RANGE-END', 'RANGE:SolarDay::get_nine_day', dom, nine, nine_orc,
          u'数九 on the first days of 0001 (counted from the solstice of December of year 0) and the last days of 9999 (the 81 days end in year 10000)', fmt(scen), fn_site(p, 'SolarDay::get_nine_day'))

    def gov(si, n, pred):
        return max((tn, ti) for (ty, ti), (tn, ts) in scen[si][1].items() if tn <= n and pred(ti))

    def pheno(x):
        si, n = x
        cm = CalModel(I, scen[si][1], scen[si][2])
        r = t.m(cm.solar_day_n(n), 'get_phenology_day')
        return (t.name(t.m(r, 'get_phenology')), py(t.m(r, 'get_day_index')))

    def pheno_orc(x):
        si, n = x
        tn, ti = gov(si, n, lambda i: True)
        pent = min((n - tn) // 5, 2)
        return (ph_names[ti * 3 + pent], n - tn - 5 * pent)
    table(ctx, 'RANGE-END', 'RANGE:SolarDay::get_phenology_day', dom, pheno, pheno_orc,
          u'七十二候 on the first days of 0001 (the governing term starts in December of year 0) and the last days of 9999', fmt(scen), fn_site(p, 'SolarDay::get_phenology_day'))

    def cmd(x):
        si, n = x
        cm = CalModel(I, scen[si][1], scen[si][2])
        r = t.m(cm.solar_day_n(n), 'get_hide_heaven_stem_day')
        h = t.m(r, 'get_hide_heaven_stem')
        return (t.name(t.m(h, 'get_heaven_stem')), t.name(t.m(h, 'get_type')), py(t.m(r, 'get_day_index')))

    def cmd_orc(x):
        si, n = x
        tn, ti = gov(si, n, lambda i: i % 2 == 1)
        k = n - tn
        acc = 0
        for sj, s in enumerate(COMMAND[G.BRANCHES[(2 + (ti - 3) // 2) % 12]]):
            if s is None:
                continue
            stem, cnt = s
            if cnt is None or k < acc + cnt:
                return (stem, TYPE_NAMES[sj], k - acc)
            acc += cnt
    table(ctx, 'RANGE-END', 'RANGE:SolarDay::get_hide_heaven_stem_day', dom, cmd, cmd_orc,
          u'人元司令分野 on the first days of 0001 (the governing Jie is 大雪 / 小寒 around the turn of year 0) and the last days of 9999', fmt(scen), fn_site(p, 'SolarDay::get_hide_heaven_stem_day'))

    def none_series(x):
        si, n = x
        cm = CalModel(I, scen[si][1], scen[si][2])
        d = cm.solar_day_n(n)
        return (t.m(d, 'get_dog_day').some, t.m(d, 'get_plum_rain_day').some)
    table(ctx, 'RANGE-END', 'RANGE:SolarDay::get_dog_day/get_plum_rain_day', dom, none_series, lambda x: (False, False),
          u'no day of January 0001 or December 9999 is a Dog day or a Plum-rain day (and asking does not fail)', fmt(scen), fn_site(p, 'SolarDay::get_dog_day'))
