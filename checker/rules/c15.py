# -*- coding: utf-8 -*-
"""C15 — term-anchored day series: Nines, Dog days, Plum rains, pentads, commanding stems.

The real series code is evaluated by PETE on scenario calendars (numeric layer replaced by oracles, see
calmodel.py) for every day of the relevant window and for every relevant position/pillar of the anchoring
term days; results are compared with the defining piecewise rules.
"""
from rlib import T, table, py, fn_site, Bottom, Unanalysable
from calmodel import CalModel, typical_terms, synthetic_months
import calendar_oracle as CAL
import ganzhi as G

Y = 2000
TERMS = [u'冬至', u'小寒', u'大寒', u'立春', u'雨水', u'惊蛰', u'春分', u'清明', u'谷雨', u'立夏', u'小满', u'芒种', u'夏至', u'小暑', u'大暑', u'立秋', u'处暑', u'白露', u'秋分', u'寒露', u'霜降', u'立冬', u'小雪', u'大雪']
# 人元司令分野（渊海子平）：自节日起，每月三段（余气、中气、本气）及日数，本气至月终
COMMAND = {u'寅': [(u'戊', 7), (u'丙', 7), (u'甲', None)], u'卯': [(u'甲', 10), None, (u'乙', None)], u'辰': [(u'乙', 9), (u'癸', 3), (u'戊', None)],
           u'巳': [(u'戊', 5), (u'庚', 9), (u'丙', None)], u'午': [(u'丙', 10), (u'己', 9), (u'丁', None)], u'未': [(u'丁', 9), (u'乙', 3), (u'己', None)],
           u'申': [(u'戊', 10), (u'壬', 3), (u'庚', None)], u'酉': [(u'庚', 10), None, (u'辛', None)], u'戌': [(u'辛', 9), (u'丁', 3), (u'戊', None)],
           u'亥': [(u'戊', 7), (u'甲', 5), (u'壬', None)], u'子': [(u'壬', 10), None, (u'癸', None)], u'丑': [(u'癸', 9), (u'辛', 3), (u'己', None)]}
TYPE_NAMES = [u'余气', u'中气', u'本气']


def stem_of(n):
    return ((n + 49) % 60) % 10


def branch_of(n):
    return ((n + 49) % 60) % 12


def first_on_or_after(n, pred):
    while not pred(n):
        n += 1
    return n


def run(ctx):
    ctx.exhaustive = False
    ctx.exhaustive_note = 'complete over every day of the window for every stem/branch of the anchoring days; term days are scenario inputs'
    from rules import shared
    ctx.include('effect_inventory', shared.effect_inventory)   # no new process-wide mutable state (MIR statics inventory)
    ctx.include('month_records', shared.month_records)   # leap table, solstice anchor, month memo, memo cells (shared, cached per source hash)
    ctx.include('jd_tables', shared.jd_tables)           # civil date <-> day number per (year, month) (shared, cached per source hash)
    I = ctx.interp(fuel=60000000)
    t = T(I)
    p = ctx.prog
    R = 'PETE-SCENARIO'
    ctx.rule(R, 'real series code evaluated on scenario calendars for every day of the window x every anchor position / pillar, vs the defining piecewise rule')
    ctx.rule('NAMES', 'name table shape')
    months = synthetic_months(Y, CAL.jdn(Y, 2, 5), 2, prev_months=3)

    def names_check(static, n):
        def f():
            v = t.names(static)
            if len(v) != n or len(set(v)) != n:
                return '%s must have %d distinct names (has %d, %d distinct)' % (static, n, len(v), len(set(v)))
        ctx.guard('NAMES', 'NAMES:%s' % static, f, n)
    names_check('PHENOLOGY_NAMES', 72)
    names_check('NINE_NAMES', 9)
    names_check('DOG_NAMES', 3)
    names_check('PLUM_RAIN_NAMES', 2)
    ctx.guard('NAMES', 'NAMES:SOLAR_TERM_NAMES', lambda: None if t.names('SOLAR_TERM_NAMES') == TERMS else 'SOLAR_TERM_NAMES differs from the 24 terms starting at 冬至', 24)

    # ---------------- Nines: 81 days from each winter-solstice day
    nine_names = [u'一九', u'二九', u'三九', u'四九', u'五九', u'六九', u'七九', u'八九', u'九九']
    scen_n = []
    for s1 in (-7, -1, 0, 1):          # solstice of Dec Y-1 ... Dec 15 .. Dec 23
        for s2 in (-7, -1, 0, 1):
            tm = typical_terms(range(Y - 1, Y + 3))
            tm[(Y, 0)] = (tm[(Y, 0)][0] + s1, tm[(Y, 0)][1])
            tm[(Y + 1, 0)] = (tm[(Y + 1, 0)][0] + s2, tm[(Y + 1, 0)][1])
            scen_n.append(tm)
    days = list(range(CAL.jdn(Y, 1, 1), CAL.jdn(Y, 12, 31) + 1))
    # all days for two scenarios, critical windows for the rest
    dom = []
    for si, tm in enumerate(scen_n):
        a, b = tm[(Y, 0)][0], tm[(Y + 1, 0)][0]
        if si in (0, 10):
            dom += [(si, n) for n in days]
        else:
            crit = set(range(days[0], days[0] + 3)) | set(range(a + 78, a + 84)) | set(range(b - 3, days[-1] + 1))
            dom += [(si, n) for n in sorted(crit) if days[0] <= n <= days[-1]]

    def nine(a):
        si, n = a
        cm = CalModel(I, scen_n[si], months)
        r = t.m(cm.solar_day_n(n), 'get_nine_day')
        if not r.some:
            return None
        return (t.name(t.m(r.v, 'get_nine')), py(t.m(r.v, 'get_day_index')))

    def nine_orc(a):
        si, n = a
        tm = scen_n[si]
        for s in (tm[(Y + 1, 0)][0], tm[(Y, 0)][0]):
            if s <= n < s + 81:
                return (nine_names[(n - s) // 9], (n - s) % 9)
        return None
    table(ctx, R, 'SolarDay::get_nine_day', dom, nine, nine_orc, u'数九: the 81 days from each winter-solstice day, nine days each, and no other day',
          lambda a: 'solstices=%s,%s day=%s' % (CAL.from_jdn(scen_n[a[0]][(Y, 0)][0]), CAL.from_jdn(scen_n[a[0]][(Y + 1, 0)][0]), CAL.from_jdn(a[1])), fn_site(p, 'SolarDay::get_nine_day'))

    # ---------------- Dog days
    dog_names = [u'初伏', u'中伏', u'末伏']
    scen_d = []
    for d1 in range(10):               # summer-solstice day shifted over 10 consecutive days: every stem
        for d2 in (-2, -1, 0, 1, 2, 3):
            tm = typical_terms(range(Y - 1, Y + 3))
            # the instants sit late in the evening in a third of the scenarios: the Geng count starts from the solstice's CIVIL day
            # (an instant-level view already shows the next day's pillar from 23:00)
            late = 84600 if (d1 + d2) % 3 == 0 else tm[(Y, 12)][1]
            tm[(Y, 12)] = (tm[(Y, 12)][0] + d1 - 4, late)
            tm[(Y, 15)] = (tm[(Y, 15)][0] + d2, 83000 if (d1 + d2) % 3 == 1 else tm[(Y, 15)][1])
            scen_d.append(tm)
    win = list(range(CAL.jdn(Y, 6, 10), CAL.jdn(Y, 9, 10)))

    def dog(a):
        si, n = a
        cm = CalModel(I, scen_d[si], months)
        r = t.m(cm.solar_day_n(n), 'get_dog_day')
        if not r.some:
            return None
        return (t.name(t.m(r.v, 'get_dog')), py(t.m(r.v, 'get_day_index')))

    def dog_orc(a):
        si, n = a
        tm = scen_d[si]
        sol, autumn = tm[(Y, 12)][0], tm[(Y, 15)][0]
        g1 = first_on_or_after(sol, lambda x: stem_of(x) == 6)      # first Geng day on or after the solstice day
        g3, g4, g5 = g1 + 20, g1 + 30, g1 + 40
        if g3 <= n < g4:
            return (dog_names[0], n - g3)
        if g5 < autumn:                                           # fifth Geng day precedes the start-of-autumn day: twenty-day middle period
            if g4 <= n < g4 + 20:
                return (dog_names[1], n - g4)
            if g4 + 20 <= n < g4 + 30:
                return (dog_names[2], n - g4 - 20)
        else:
            if g4 <= n < g5:
                return (dog_names[1], n - g4)
            if g5 <= n < g5 + 10:
                return (dog_names[2], n - g5)
        return None
    table(ctx, R, 'SolarDay::get_dog_day', [(si, n) for si in range(len(scen_d)) for n in win], dog, dog_orc,
          u'三伏: from the third 庚 day on or after the summer-solstice day; 10, then 10 or 20 (fifth 庚 before 立秋), then 10 days',
          lambda a: u'夏至=%s(%s) 立秋=%s day=%s' % (CAL.from_jdn(scen_d[a[0]][(Y, 12)][0]), G.STEMS[stem_of(scen_d[a[0]][(Y, 12)][0])], CAL.from_jdn(scen_d[a[0]][(Y, 15)][0]), CAL.from_jdn(a[1])), fn_site(p, 'SolarDay::get_dog_day'))

    # ---------------- Plum rains
    scen_p = []
    for d1 in range(10):
        for d2 in range(12):
            tm = typical_terms(range(Y - 1, Y + 3))
            tm[(Y, 11)] = (tm[(Y, 11)][0] + d1 - 4, tm[(Y, 11)][1])
            tm[(Y, 13)] = (tm[(Y, 13)][0] + d2 - 5, tm[(Y, 13)][1])
            scen_p.append(tm)
    winp = list(range(CAL.jdn(Y, 5, 28), CAL.jdn(Y, 7, 28)))

    def plum(a):
        si, n = a
        cm = CalModel(I, scen_p[si], months)
        r = t.m(cm.solar_day_n(n), 'get_plum_rain_day')
        if not r.some:
            return None
        return (t.name(t.m(r.v, 'get_plum_rain')), py(t.m(r.v, 'get_day_index')))

    def plum_orc(a):
        si, n = a
        tm = scen_p[si]
        start = first_on_or_after(tm[(Y, 11)][0], lambda x: stem_of(x) == 2)     # first 丙 day on or after 芒种
        end = first_on_or_after(tm[(Y, 13)][0], lambda x: branch_of(x) == 7)     # first 未 day on or after 小暑
        if start <= n < end:
            return (u'入梅', n - start)
        if n == end:
            return (u'出梅', 0)
        return None
    # sample: all days for every 7th scenario plus boundaries for all
    domp = []
    for si, tm in enumerate(scen_p):
        if si % 7 == 0:
            domp += [(si, n) for n in winp]
        else:
            s0, e0 = tm[(Y, 11)][0], tm[(Y, 13)][0]
            crit = set(range(s0 - 1, s0 + 11)) | set(range(e0 - 1, e0 + 14))
            domp += [(si, n) for n in sorted(crit)]
    table(ctx, R, 'SolarDay::get_plum_rain_day', domp, plum, plum_orc, u'梅雨: from the first 丙 day on or after 芒种 to the first 未 day on or after 小暑',
          lambda a: u'芒种=%s 小暑=%s day=%s' % (CAL.from_jdn(scen_p[a[0]][(Y, 11)][0]), CAL.from_jdn(scen_p[a[0]][(Y, 13)][0]), CAL.from_jdn(a[1])), fn_site(p, 'SolarDay::get_plum_rain_day'))

    # ---------------- pentads: every day of a year; term day index and the three-per-term split
    ph_names = t.names('PHENOLOGY_NAMES')
    tm_mid = typical_terms(range(Y - 1, Y + 3))
    for i_ in (4, 9, 18):
        tm_mid[(Y, i_)] = (tm_mid[(Y, i_)][0] - 1, 86399.7)     # instant 0.3 s before midnight: the library reports the term on the NEXT civil day (rounded to the second)
    for era, tm0 in (('', typical_terms(range(Y - 1, Y + 3))), (':julian-era', typical_terms(range(Y - 1, Y + 3), shift=dict((i, -12) for i in range(24)))), (':term-at-midnight', tm_mid)):
        three = t.names('THREE_PHENOLOGY_NAMES')

        def pheno(n):
            cm = CalModel(I, tm0, months)
            d = cm.solar_day_n(n)
            r = t.m(d, 'get_phenology_day')
            ph = t.m(r, 'get_phenology')
            td = t.m(d, 'get_term_day')
            return (t.name(ph), py(t.m(r, 'get_day_index')), t.name(t.m(ph, 'get_three_phenology')), t.name(t.m(td, 'get_solar_term')), py(t.m(td, 'get_day_index')))

        def pheno_orc(n):
            best = max((tn + (1 if ts >= 86399.5 else 0), ti) for (ty, ti), (tn, ts) in tm0.items() if tn + (1 if ts >= 86399.5 else 0) <= n)
            i = n - best[0]
            pent = min(i // 5, 2)
            return (ph_names[best[1] * 3 + pent], i - 5 * pent, three[pent], TERMS[best[1]], i)
        table(ctx, R, 'SolarDay::get_phenology_day' + era, days, pheno, pheno_orc, u'七十二候: three per term (days 0-4, 5-9, 10+); term day index counts from the term day',
              lambda n: '%d-%02d-%02d' % CAL.from_jdn(n), fn_site(p, 'SolarDay::get_phenology_day'))

        # the day a term starts on, as a caller obtains it (term -> Julian date -> civil day), is day 0 of the term's first pentad
        def own_day(ti):
            cm = CalModel(I, tm0, months)
            d = t.m(t.m(cm.term_sv(Y, ti), 'get_julian_day'), 'get_solar_day')
            r = t.m(d, 'get_phenology_day')
            return (cm.n_of(d), t.name(t.m(r, 'get_phenology')), py(t.m(r, 'get_day_index')))
        table(ctx, R, 'SolarTerm:own-day:pentad' + era, range(24), own_day,
              lambda ti: (tm0[(Y, ti)][0] + (1 if tm0[(Y, ti)][1] >= 86399.5 else 0), ph_names[ti * 3], 0),
              u'the civil day of a term (its instant rounded to the second) is day 0 of the first pentad of that term', lambda ti: TERMS[ti], fn_site(p, 'JulianDay::get_solar_day'))

        # ---------------- commanding stems: 12 months x day index 0..32 from the Jie day
        jie_branch = dict((i, G.BRANCHES[(2 + (i - 3) // 2) % 12]) for i in range(1, 24, 2))   # 立春(3)->寅 ... 小寒(1)->丑
        domc = []
        for ti in range(1, 24, 2):
            rd = lambda v: v[0] + (1 if v[1] >= 86399.5 else 0)
            tn = rd(tm0[(Y, ti)])
            nxt = rd(tm0[(Y, ti + 2)]) if ti + 2 < 24 else rd(tm0[(Y + 1, 1)])
            domc += [(ti, k) for k in range(0, nxt - tn)]

        def cmd(a):
            ti, k = a
            cm = CalModel(I, tm0, months)
            r = t.m(cm.solar_day_n(tm0[(Y, ti)][0] + (1 if tm0[(Y, ti)][1] >= 86399.5 else 0) + k), 'get_hide_heaven_stem_day')
            h = t.m(r, 'get_hide_heaven_stem')
            return (t.name(t.m(h, 'get_heaven_stem')), t.name(t.m(h, 'get_type')), py(t.m(r, 'get_day_index')))

        def cmd_orc(a):
            ti, k = a
            slots = COMMAND[jie_branch[ti]]
            acc = 0
            for si, s in enumerate(slots):
                if s is None:
                    continue
                stem, cnt = s
                if cnt is None or k < acc + cnt:
                    return (stem, TYPE_NAMES[si], k - acc)
                acc += cnt
            raise AssertionError
        table(ctx, R, 'SolarDay::get_hide_heaven_stem_day' + era, domc, cmd, cmd_orc, u'人元司令分野: classical per-month allotment counted from the Jie day, day index restarting at 0 in each allotment',
              lambda a: u'%s月(%s) 第%d日' % (jie_branch[a[0]], TERMS[a[0]], a[1]), fn_site(p, 'SolarDay::get_hide_heaven_stem_day'))

    # ---- the two ends of the supported range
    from rules import range_end as _re
    _Ie = ctx.interp(fuel=50000000)
    _re.c15_edge(ctx, _Ie, T(_Ie))

    ctx.assumptions.append('numeric layer replaced by oracles: civil date <-> day number (C01), term days (C05/C06), pillar (day number + 49) mod 60 (C07)')
    ctx.not_decided.append('on which civil days the anchoring terms fall and which days are 庚/丙/未 on the real calendar (numeric: C05/C06/C07)')
    return ('the real Nines / Dog-days / Plum-rains / pentad / commanding-stem code evaluated from the syntax tree on scenario calendars: every day of the window, '
            'every stem/branch of the anchoring term day, both 10/20-day branches, compared with the defining piecewise rules')
