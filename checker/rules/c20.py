# -*- coding: utf-8 -*-
"""C20 — festival and legal-holiday lookups are consistent in both directions."""
import re
from rlib import T, table, py, fn_site, Bottom, Unanalysable
from calmodel import CalModel, typical_terms, synthetic_months
import calendar_oracle as CAL

# 公历现代节日（名称, 月, 日, 起始年）
SOLAR_FESTIVALS = [(u'元旦', 1, 1, 1950), (u'三八妇女节', 3, 8, 1950), (u'植树节', 3, 12, 1979), (u'五一劳动节', 5, 1, 1950), (u'五四青年节', 5, 4, 1950),
                   (u'六一儿童节', 6, 1, 1950), (u'建党节', 7, 1, 1941), (u'八一建军节', 8, 1, 1933), (u'教师节', 9, 10, 1985), (u'国庆节', 10, 1, 1950)]
# 农历传统节日：固定农历日；清明、冬至为节气日；除夕为农历年最后一天
LUNAR_FIXED = {u'春节': (1, 1), u'元宵节': (1, 15), u'龙头节': (2, 2), u'上巳节': (3, 3), u'端午节': (5, 5), u'七夕节': (7, 7), u'中元节': (7, 15), u'中秋节': (8, 15), u'重阳节': (9, 9), u'腊八节': (12, 8)}
LUNAR_ORDER = [u'春节', u'元宵节', u'龙头节', u'上巳节', u'清明节', u'端午节', u'七夕节', u'中元节', u'中秋节', u'重阳节', u'冬至节', u'腊八节', u'除夕']
HOLIDAY_NAMES = [u'元旦节', u'春节', u'清明节', u'劳动节', u'端午节', u'中秋节', u'国庆节', u'国庆中秋', u'抗战胜利日']


def run(ctx):
    ctx.exhaustive = False
    ctx.exhaustive_note = 'complete over all month-days, all holiday records and every date of the covered years; lunar festivals on 4 scenario calendars'
    from rules import shared
    ctx.include('effect_inventory', shared.effect_inventory)   # no new process-wide mutable state (MIR statics inventory)
    ctx.include('jd_tables', shared.jd_tables)           # civil date <-> day number and Julian date -> clock (term instants become days / instants through them)
    ctx.include('month_records', shared.month_records)   # leap table, solstice anchor, month memo, memo cells (shared, cached per source hash)
    I = ctx.interp(fuel=200000000)
    t = T(I)
    p = ctx.prog
    ctx.rule('PETE-TABLE', 'lookup code evaluated on the literal tables over the whole finite key space vs the festival lists')
    ctx.rule('PETE-SCENARIO', 'lunar festival code evaluated on scenario calendars (numeric layer replaced by oracles)')
    ctx.rule('TABLES-HOLIDAY', 'legal-holiday literal: record grammar, real dates, strictly increasing, offsets land on rest days; readers evaluated for every record and every other date')
    ctx.rule('CARRY', 'festival stepping carries years by floor wherever the year is accepted')
    cm = CalModel(I, {}, [])

    # ---------------- civil festivals: every month-day x years around each founding year
    years = sorted(set([1900, 2024] + [y + d for (_, _, _, y) in SOLAR_FESTIVALS for d in (-1, 0, 1)]))
    md = [(m, d) for m in range(1, 13) for d in range(1, 32) if CAL.exists(2000, m, d)]

    def sf(x):
        y, m, d = x
        if not CAL.exists(y, m, d):
            return 'skip'
        r = I.call('SolarFestival::from_ymd', [y, m, d])
        via_day = t.m(cm.solar_day(y, m, d), 'get_festival')      # the date's own accessor must give the same answer
        if not r.some:
            return None if not via_day.some else 'SolarDay::get_festival finds %s where from_ymd finds nothing' % t.name(via_day.v)
        f = r.v
        if not via_day.some or t.name(via_day.v) != t.name(f) or t.name(t.m(f, 'get_type')) != u'日期':
            return 'SolarDay::get_festival / get_type disagree with from_ymd (%s)' % t.name(f)
        return (t.name(f), py(t.m(f, 'get_index')), cm.ymd_of(t.m(f, 'get_day')), py(t.m(f, 'get_start_year')))

    def sf_orc(x):
        y, m, d = x
        if not CAL.exists(y, m, d):
            return 'skip'
        for i, (nm, fm, fd, fy) in enumerate(SOLAR_FESTIVALS):
            if (fm, fd) == (m, d) and y >= fy:
                return (nm, i, (y, m, d), fy)
        return None
    table(ctx, 'PETE-TABLE', 'SolarFestival::from_ymd', [(y, m, d) for y in years for (m, d) in md], sf, sf_orc,
          'a civil festival is found on exactly its month-day from its founding year on and never before', str, fn_site(p, 'SolarFestival::from_ymd'))

    def sfi(x):
        y, i = x
        r = I.call('SolarFestival::from_index', [y, i])
        if not r.some:
            return None
        return (t.name(r.v), cm.ymd_of(t.m(r.v, 'get_day')))

    def sfi_orc(x):
        y, i = x
        if i >= len(SOLAR_FESTIVALS) or y < SOLAR_FESTIVALS[i][3]:
            return None
        nm, m, d, fy = SOLAR_FESTIVALS[i]
        return (nm, (y, m, d))
    table(ctx, 'PETE-TABLE', 'SolarFestival::from_index', [(y, i) for y in years for i in range(0, 12)], sfi, sfi_orc, 'civil festival by index: record i, refused before its founding year', str, fn_site(p, 'SolarFestival::from_index'))

    def sfn(x):
        y, i, n = x
        f = I.call('SolarFestival::from_index', [y, i]).v
        r = t.m(f, 'next', n)
        if not r.some:
            return None
        return (py(t.m(r.v, 'get_index')), py(t.m(t.m(r.v, 'get_day'), 'get_year')))

    def sfn_orc(x):
        y, i, n = x
        tot = y * 10 + i + n
        yy, ii = tot // 10, tot % 10
        if yy < SOLAR_FESTIVALS[ii][3]:
            return None
        return (ii, yy)
    table(ctx, 'CARRY', 'CARRY:SolarFestival::next', [(y, i, n) for y in (1990, 2024) for i in (0, 4, 9) for n in (-31, -11, -10, -9, -1, 0, 1, 9, 10, 11, 31)], sfn, sfn_orc,
          'stepping a civil festival by n yields the festival n places further along the list, carrying years', str, fn_site(p, 'SolarFestival::next'))

    # ---------------- lunar festivals on scenario calendars
    def scenario(leap):
        Y = 2000
        months = synthetic_months(Y - 1, CAL.jdn(Y - 1, 2, 16), 4, leap=leap, prev_months=3, auto_leap=True)
        terms = typical_terms(range(Y - 2, Y + 5))
        return Y, months, terms
    scen = [scenario({}), scenario({2000: 4}), scenario({2000: 12}), scenario({2000: 11, 2001: 3})]
    # month numbers running a lunation early, as in the library's AD 9-23 window: the winter solstice of December 2000 then falls on the 8th of
    # month 12 and shares the day with the 12/08 festival, which is listed AFTER the winter-solstice festival
    scen.append((2000, synthetic_months(1999, CAL.jdn(1999, 2, 6), 4, leap={}, prev_months=3, auto_leap=False), typical_terms(range(1998, 2005))))

    def lf(x):
        si, y, i = x
        Y, months, terms = scen[si]
        cmx = CalModel(I, terms, months)
        r = I.call('LunarFestival::from_index', [y, i])
        if not r.some:
            return None
        f = r.v
        ld = t.m(f, 'get_day')
        key = (py(t.m(ld, 'get_year')), py(t.m(ld, 'get_month')), py(t.m(ld, 'get_day')))
        n = cmx.n_of(t.m(ld, 'get_solar_day'))
        back = t.m(ld, 'get_festival')
        back_name = t.name(back.v) if back.some else None
        st_ = t.m(f, 'get_solar_term')
        term_name = t.name(st_.v) if st_.some else None
        return (t.name(f), t.name(t.m(f, 'get_type')), n, back_name, term_name)

    def lf_orc(x):
        si, y, i = x
        Y, months, terms = scen[si]
        if i >= 13:
            return None
        nm = LUNAR_ORDER[i]
        recs = [r for r in months if r['year'] == y]
        if nm in LUNAR_FIXED:
            m, d = LUNAR_FIXED[nm]
            r = [r for r in recs if r['month'] == m][0]
            n, ty, tn = r['first'] + d - 1, u'日期', None
        elif nm == u'清明节':
            n, ty, tn = terms[(y, 7)][0], u'节气', u'清明'
        elif nm == u'冬至节':
            n, ty, tn = terms[(y + 1, 0)][0], u'节气', u'冬至'
        else:
            last = recs[-1]
            n, ty, tn = last['first'] + last['count'] - 1, u'除夕', None
        # its own lookup returns it, or the earlier-listed festival sharing the day
        same = []
        for j, nm2 in enumerate(LUNAR_ORDER):
            x2 = lf_day(si, y, j) if j != i else n
            if x2 == n:
                same.append(nm2)
        return (nm, ty, n, same[0], tn)

    def lf_day(si, y, j):
        Y, months, terms = scen[si]
        nm = LUNAR_ORDER[j]
        recs = [r for r in months if r['year'] == y]
        if nm in LUNAR_FIXED:
            m, d = LUNAR_FIXED[nm]
            r = [r for r in recs if r['month'] == m][0]
            return r['first'] + d - 1
        if nm == u'清明节':
            return terms[(y, 7)][0]
        if nm == u'冬至节':
            return terms[(y + 1, 0)][0]
        last = recs[-1]
        return last['first'] + last['count'] - 1
    table(ctx, 'PETE-SCENARIO', 'LunarFestival::from_index', [(si, y, i) for si in range(len(scen)) for y in (2000, 2001) for i in range(14)], lf, lf_orc,
          'a lunar festival found by index falls on its defining day (fixed date / term day / last day of the lunar year incl. leap 12th month) and that day\'s own lookup returns it (or the earlier-listed one)',
          lambda x: 'scenario %d year %d index %d' % x, fn_site(p, 'LunarFestival::from_index'))

    # by-date lookup on every day of a lunar year: only festival days answer
    def lday(x):
        si, k = x
        Y, months, terms = scen[si]
        cmx = CalModel(I, terms, months)
        recs = [r for r in months if r['year'] == 2000]
        out = []
        r = recs[k]
        for d in range(1, r['count'] + 1):
            f = I.call('LunarFestival::from_ymd', [r['year'], r['month'], d])
            if f.some:
                out.append((d, t.name(f.v)))
        return out

    def lday_orc(x):
        si, k = x
        Y, months, terms = scen[si]
        recs = [r for r in months if r['year'] == 2000]
        r = recs[k]
        out = []
        for d in range(1, r['count'] + 1):
            n = r['first'] + d - 1
            for j, nm in enumerate(LUNAR_ORDER):
                if lf_day(si, 2000, j) == n:
                    out.append((d, nm))
                    break
        return out
    table(ctx, 'PETE-SCENARIO', 'LunarFestival::from_ymd', [(si, k) for si in range(len(scen)) for k in range(len([r for r in scen[si][1] if r['year'] == 2000]))], lday, lday_orc,
          'by-date lookup over every day of a lunar year answers exactly on festival days (leap months have no fixed-date festival)', lambda x: 'scenario %d month#%d' % x, fn_site(p, 'LunarFestival::from_ymd'))

    def lfn(x):
        y, i, n = x
        Y, months, terms = scen[0]
        CalModel(I, terms, months)
        f = I.call('LunarFestival::from_index', [y, i]).v
        r = t.m(f, 'next', n)
        if not r.some:
            return None
        return (py(t.m(r.v, 'get_index')), t.name(r.v))

    def lfn_orc(x):
        y, i, n = x
        tot = y * 13 + i + n
        return (tot % 13, LUNAR_ORDER[tot % 13])
    table(ctx, 'PETE-SCENARIO', 'LunarFestival::next', [(2000, i, n) for i in (0, 6, 12) for n in (-13, -7, -1, 0, 1, 6, 12, 13) if 1999 <= (2000 * 13 + i + n) // 13 <= 2001], lfn, lfn_orc,
          'stepping a lunar festival by n yields the festival n places further along the list', str, fn_site(p, 'LunarFestival::next'))

    # carry of LunarFestival::next at the years 0 / -1 the lunar calendar accepts: only the (year, index) passed on to from_index is observed
    seen = []

    def spy(I_, r, a):
        seen.append((py(a[0]), py(a[1])))
        from pete import NONE
        return NONE
    fn_next = p.find_method('LunarFestival', 'next')

    def lcarry(x):
        y, i, n = x
        from pete import SV, RInt, CellV, NONE
        lm = SV('LunarMonth', {'year': SV('LunarYear', {'year': RInt(y, 'isize')}), 'month': RInt(1, 'usize'), 'leap': False, 'day_count': RInt(30, 'usize'), 'index_in_year': RInt(0, 'usize'),
                               'first_julian_day': SV('JulianDay', {'day': 0.0})})
        ld = SV('LunarDay', {'month': lm, 'day': RInt(1, 'usize'), 'solar_day': CellV(NONE, 'refcell'), 'sixty_cycle_day': CellV(NONE, 'refcell')})
        f = SV('LunarFestival', {'festival_type': I.call('FestivalType::from_code', [0]).v, 'day': ld, 'index': RInt(i, 'usize'), 'solar_term': NONE})
        del seen[:]
        I.overrides['LunarFestival::from_index'] = spy
        try:
            I.call_fn(fn_next, f, [RInt(n, 'isize')], 'LunarFestival')
        finally:
            del I.overrides['LunarFestival::from_index']
        return seen[0]
    table(ctx, 'CARRY', 'CARRY:LunarFestival::next', [(y, i, n) for y in (-1, 0, 1, 2) for i in (0, 12) for n in (-27, -14, -13, -12, -1, 0, 1, 13, 14) if -1 <= (y * 13 + i + n) // 13 <= 9999], lcarry,
          lambda x: ((x[0] * 13 + x[1] + x[2]) // 13, (x[0] * 13 + x[1] + x[2]) % 13), 'the (year, index) handed to from_index is the floor quotient / Euclidean remainder (lunar years 0 and -1 are accepted)', str, fn_site(p, 'LunarFestival::next'))

    # ---------------- legal holidays
    data = py(I.static('LEGAL_HOLIDAY_DATA', 'src/tyme/holiday.rs'))
    names = py(I.static('LEGAL_HOLIDAY_NAMES', 'src/tyme/holiday.rs'))

    def grammar():
        if len(data) % 13 != 0:
            return 'LEGAL_HOLIDAY_DATA length %d is not a multiple of the 13-character record' % len(data)
        recs = [data[i:i + 13] for i in range(0, len(data), 13)]
        if len(recs) < 800:
            return 'fewer than 800 holiday records (%d)' % len(recs)
        prev = None
        index = {}
        for k, r in enumerate(recs):
            if not re.match(r'^\d{8}[01]\d[+-]\d{2}$', r):
                return 'record #%d %r does not match YYYYMMDD[01]N[+-]DD' % (k, r)
            y, m, d = int(r[0:4]), int(r[4:6]), int(r[6:8])
            if not CAL.exists(y, m, d):
                return 'record #%d %r is not a real date' % (k, r)
            if int(r[9]) >= len(names):
                return 'record #%d %r names holiday %s outside the name list (len %d)' % (k, r, r[9], len(names))
            key = (y, m, d)
            if prev is not None and key <= prev:
                return 'record #%d %r is not after its predecessor (dates must be strictly increasing)' % (k, r)
            prev = key
            index[CAL.jdn(y, m, d)] = r
        for k, r in enumerate(recs):
            y, m, d = int(r[0:4]), int(r[4:6]), int(r[6:8])
            off = int(r[10:13])
            tgt = index.get(CAL.jdn(y, m, d) + off)
            if tgt is None:
                return 'record #%d %r: offset %+d points at a day that is not in the table' % (k, r, off)
            if tgt[8] != '1':
                return 'record #%d %r: offset %+d points at %s which is a work day, not a rest day' % (k, r, off, tgt[:8])
        return None
    ctx.guard('TABLES-HOLIDAY', 'TABLES:LEGAL_HOLIDAY_DATA:grammar', grammar, len(data) // 13, {'records': len(data) // 13})
    ctx.guard('TABLES-HOLIDAY', 'TABLES:LEGAL_HOLIDAY_NAMES', lambda: None if names == HOLIDAY_NAMES else 'LEGAL_HOLIDAY_NAMES differs from the 9 holiday names', len(names))
    recs = [data[i:i + 13] for i in range(0, len(data) - len(data) % 13, 13)]
    rec_by_date = dict(((int(r[0:4]), int(r[4:6]), int(r[6:8])), r) for r in recs)

    def hol(x):
        y, m, d = x
        r = I.call('LegalHoliday::from_ymd', [y, m, d])
        via_day = t.m(cm.solar_day(y, m, d), 'get_legal_holiday')      # the date's own accessor must give the same answer
        if not r.some:
            return None if not via_day.some else 'SolarDay::get_legal_holiday finds a record where from_ymd finds none'
        h = r.v
        if not via_day.some or (cm.ymd_of(t.m(via_day.v, 'get_day')), t.name(via_day.v), t.m(via_day.v, 'is_work')) != (cm.ymd_of(t.m(h, 'get_day')), t.name(h), t.m(h, 'is_work')):
            return 'SolarDay::get_legal_holiday disagrees with from_ymd'
        return (cm.ymd_of(t.m(h, 'get_day')), t.name(h), t.m(h, 'is_work'))

    def hol_orc(x):
        r = rec_by_date.get(x)
        if r is None:
            return None
        return (x, names[int(r[9])], r[8] == '0')
    y0, y1 = int(recs[0][0:4]), int(recs[-1][0:4])
    alld = [(y, m, d) for y in range(y0, y1 + 1) for m in range(1, 13) for d in range(1, 32) if CAL.exists(y, m, d)]
    table(ctx, 'TABLES-HOLIDAY', 'LegalHoliday::from_ymd', alld, hol, hol_orc, 'every record is returned for its date and for no other (every date of the covered years)', str, fn_site(p, 'LegalHoliday::from_ymd'))

    order = sorted(rec_by_date)

    def hnext(x):
        k, n = x
        y, m, d = order[k]
        h = I.call('LegalHoliday::from_ymd', [y, m, d]).v
        r = t.m(h, 'next', n)
        if not r.some:
            return None
        return cm.ymd_of(t.m(r.v, 'get_day'))

    def hnext_orc(x):
        k, n = x
        j = k + n
        if j < 0 or j >= len(order):
            return None
        return order[j]
    steps = [(k, n) for k in range(len(order)) for n in (-1, 1)] + [(k, n) for k in range(0, len(order), 7) for n in (-40, -3, 0, 2, 35)]
    table(ctx, 'TABLES-HOLIDAY', 'LegalHoliday::next', steps, hnext, hnext_orc, 'stepping visits the records in strictly increasing date order, carrying across years (every record, +-1 and longer steps)',
          lambda x: '%s next(%d)' % (order[x[0]], x[1]), fn_site(p, 'LegalHoliday::next'))

    ctx.assumptions.append('lunar month table and term days are scenario inputs (C02/C03, C05/C06); python `re` = regex crate on these ASCII patterns')
    ctx.not_decided.append('the civil dates of lunar festivals on the real calendar (numeric)')
    return ('civil festival lookups over every month-day x founding-year neighbourhoods; lunar festivals by index and by date on scenario calendars (incl. leap 12th month); '
            'festival carries; the legal-holiday literal (grammar, order, offsets) and its two readers over every date of the covered years and every record')
