# -*- coding: utf-8 -*-
"""C06 — every day belongs to exactly one solar term: ordered, evenly spaced, consistent (structural clauses)."""
from rlib import T, table, py, fn_site, Bottom, Unanalysable
from calmodel import CalModel, typical_terms, synthetic_months
import calendar_oracle as CAL

Y = 2000
TERMS = [u'冬至', u'小寒', u'大寒', u'立春', u'雨水', u'惊蛰', u'春分', u'清明', u'谷雨', u'立夏', u'小满', u'芒种', u'夏至', u'小暑', u'大暑', u'立秋', u'处暑', u'白露', u'秋分', u'寒露', u'霜降', u'立冬', u'小雪', u'大雪']


def term_ctor_rules(ctx):
    """the two term constructors agree; stepping / constructing by index carries by floor (shared with C05: a term built either way must be THE term k of the year)"""
    p = ctx.prog
    ctx.rule('SIB-CTOR', 'the two term constructors agree field by field (series stubbed with two different shapes to drive both branches)')
    ctx.rule('CARRY', 'stepping / constructing a term by index carries into the year by floor, in both directions and around year 0')
    # ---- sibling constructors
    for sname, stub in (('identity', lambda I_, r, a: a[0]), ('late', lambda I_, r, a: a[0] + 400.0)):
        I3 = ctx.interp(fuel=20000000)
        I3.overrides['ShouXingUtil::calc_qi'] = stub
        t3 = T(I3)
        names = py(I3.static('SOLAR_TERM_NAMES', 'src/tyme/solar.rs'))

        def both(x, I3=I3, t3=t3, names=names):
            y, i = x
            a = I3.call('SolarTerm::from_index', [y, i])
            b = I3.call('SolarTerm::new', [y, names[i]]).v
            return (py(t3.m(a, 'get_year')), py(t3.m(a, 'get_index')), t3.m(a, 'get_cursory_julian_day')) == (py(t3.m(b, 'get_year')), py(t3.m(b, 'get_index')), t3.m(b, 'get_cursory_julian_day'))
        table(ctx, 'SIB-CTOR', 'SIB:SolarTerm::from_index~new:%s' % sname, [(y, i) for y in (-1, 0, 1, 1200, 1582, 2000, 2024, 9999) for i in range(24)], both, lambda x: True,
              'SolarTerm::from_index and SolarTerm::new build the same term (year, index, day-level Julian day) [calc_qi stub: %s]' % sname, str, fn_site(p, 'SolarTerm::new'))

    # ---- carries (shared with C11)
    I3 = ctx.interp(fuel=20000000)
    I3.overrides['ShouXingUtil::calc_qi'] = lambda I_, r, a: a[0]
    t3 = T(I3)

    def term_step(x):
        y, i, n = x
        r = t3.m(I3.call('SolarTerm::from_index', [y, i]), 'next', n)
        return (py(t3.m(r, 'get_year')), py(t3.m(r, 'get_index')))
    domt = [(y, i, n) for y in (-1, 0, 1, 2, 2023) for i in (0, 5, 23) for n in (-49, -48, -29, -25, -24, -23, -6, -1, 0, 1, 18, 19, 24, 25, 48)]
    table(ctx, 'CARRY', 'CARRY:SolarTerm::next', domt, term_step, lambda x: ((x[0] * 24 + x[1] + x[2]) // 24, (x[0] * 24 + x[1] + x[2]) % 24),
          'stepping a term by n equals constructing the term n places later, crossing years in either direction', str, fn_site(p, 'SolarTerm::next'))

    def step_vs_ctor(x):
        y, i, n = x
        a = t3.m(I3.call('SolarTerm::from_index', [y, i]), 'next', n)
        b = I3.call('SolarTerm::from_index', [y, i + n])
        return (py(t3.m(a, 'get_year')), py(t3.m(a, 'get_index')), t3.m(a, 'get_cursory_julian_day')) == (py(t3.m(b, 'get_year')), py(t3.m(b, 'get_index')), t3.m(b, 'get_cursory_julian_day'))
    table(ctx, 'CARRY', 'CARRY:SolarTerm::next==from_index', domt, step_vs_ctor, lambda x: True, 'next(n) and from_index(year, index+n) are the same term', str)

    def term_ctor(x):
        y, i = x
        r = I3.call('SolarTerm::from_index', [y, i])
        return (py(t3.m(r, 'get_year')), py(t3.m(r, 'get_index')), t3.m(r, 'get_cursory_julian_day') == t3.m(I3.call('SolarTerm::from_index', [(y * 24 + i) // 24, i % 24]), 'get_cursory_julian_day'))
    table(ctx, 'CARRY', 'CARRY:SolarTerm::from_index', [(y, i) for y in (-1, 0, 1, 2023) for i in (-49, -25, -24, -1, 0, 23, 24, 25, 30, 47, 48, 49, 73)], term_ctor, lambda x: ((x[0] * 24 + x[1]) // 24, x[1] % 24, True),
          'a term built with an index outside 0..23 is the term of the neighbouring year it names: year carried by floor, same day as the term built in normal form '
          '(callers build the Jie of the twelfth sexagenary month as index 25, the scenario calendars replace this constructor by a stand-in)', str, fn_site(p, 'SolarTerm::from_index'))



def run(ctx):
    ctx.exhaustive = False
    ctx.exhaustive_note = 'complete over every day of a scenario year for three term placements; not over all real dates'
    from rules import shared
    ctx.include('effect_inventory', shared.effect_inventory)   # no new process-wide mutable state (MIR statics inventory)
    ctx.include('solver_structure', shared.solver_structure)   # the day-level term / new-moon solvers fall back to the precise solver near civil midnight
    ctx.include('jd_tables', shared.jd_tables)           # civil date <-> day number per (year, month) (shared, cached per source hash)
    p = ctx.prog
    I = ctx.interp(fuel=100000000)
    t = T(I)
    ctx.rule('SIB-CTOR', 'the two term constructors agree field by field (series stubbed with two different shapes to drive both branches)')
    ctx.rule('CARRY', 'stepping / constructing a term by index carries into the year by floor, in both directions and around year 0')
    ctx.rule('PETE-TABLE', 'finite table vs oracle')
    ctx.rule('PETE-SCENARIO', 'day -> term and instant -> term code evaluated on scenario calendars incl. Julian-era term placements')

    term_ctor_rules(ctx)

    # ---- parity
    cm0 = CalModel(I, typical_terms(range(Y - 1, Y + 3)), synthetic_months(Y, CAL.jdn(Y, 2, 5), 2))
    table(ctx, 'PETE-TABLE', 'SolarTerm::is_jie/is_qi', range(24), lambda i: (lambda s: (t.m(s, 'is_jie'), t.m(s, 'is_qi'), t.name(s)))(cm0.term_sv(Y, i)), lambda i: (i % 2 == 1, i % 2 == 0, TERMS[i]),
          'Jie are the odd terms counted from the winter solstice, Qi the even ones; names in order', lambda i: TERMS[i], fn_site(p, 'SolarTerm::is_jie'))

    # ---- day -> term and instant -> term on scenario calendars
    # three placements of the term days relative to the civil months: today's, the Julian era's (terms ~10-13 days earlier in the month) and far-future (later)
    scen = [('modern', typical_terms(range(Y - 1, Y + 3))),
            ('julian-era (-12 d)', typical_terms(range(Y - 1, Y + 3), shift=dict((i, -12) for i in range(24)))),
            ('far future (+9 d)', typical_terms(range(Y - 1, Y + 3), shift=dict((i, 9) for i in range(24)))),
            # a term whose instant is 0.3 s before civil midnight starts (rounded to the second) at 00:00:00 of the NEXT day
            ('terms 0.3 s before midnight', typical_terms(range(Y - 1, Y + 3), sec=dict((i, 86399.7) for i in (1, 6, 12, 19))))]
    months = synthetic_months(Y, CAL.jdn(Y, 2, 5), 2)
    days = list(range(CAL.jdn(Y, 1, 1), CAL.jdn(Y, 12, 31) + 1))

    def term_of_day(x):
        si, n = x
        cm = CalModel(I, scen[si][1], months)
        td = t.m(cm.solar_day_n(n), 'get_term_day')
        st = t.m(td, 'get_solar_term')
        return (py(t.m(st, 'get_year')), py(t.m(st, 'get_index')), py(t.m(td, 'get_day_index')))

    def term_of_day_orc(x):
        si, n = x
        tm = scen[si][1]
        eff = lambda v: v[0] + (1 if int(v[1] + 0.5) >= 86400 else 0)      # the day on which the term starts = day of its instant rounded to the second
        tn, (ty, ti) = max((eff(v), k) for k, v in tm.items() if eff(v) <= n)
        return (ty, ti, n - tn)
    table(ctx, 'PETE-SCENARIO', 'SolarDay::get_term_day', [(si, n) for si in range(len(scen)) for n in days], term_of_day, term_of_day_orc,
          'each civil day is assigned the latest term that starts on or before it, day index = days since that term\'s day (term days start at index 0)',
          lambda x: '%s %d-%02d-%02d' % ((scen[x[0]][0],) + CAL.from_jdn(x[1])), fn_site(p, 'SolarDay::get_term_day'))

    # the day a term starts on, as a caller obtains it (term -> Julian date -> civil day), is the day from which get_term_day counts index 0
    def term_own_day(x):
        si, key = x
        cm = CalModel(I, scen[si][1], months)
        tv = cm.term_sv(key[0], key[1])
        d = t.m(t.m(tv, 'get_julian_day'), 'get_solar_day')
        td = t.m(d, 'get_term_day')
        st = t.m(td, 'get_solar_term')
        return (cm.n_of(d), (py(t.m(st, 'get_year')), py(t.m(st, 'get_index')), py(t.m(td, 'get_day_index'))))

    def term_own_day_orc(x):
        si, key = x
        v = scen[si][1][key]
        return (v[0] + (1 if int(v[1] + 0.5) >= 86400 else 0), (key[0], key[1], 0))
    table(ctx, 'PETE-SCENARIO', 'SolarTerm:own-day', [(si, k) for si in range(len(scen)) for k in sorted(scen[si][1]) if CAL.from_jdn(scen[si][1][k][0])[0] == Y], term_own_day, term_own_day_orc,
          'the civil day of a term (its Julian date converted to a day, i.e. the instant rounded to the second) is the day that has this term with day index 0',
          lambda x: '%s term (%d, %d)' % ((scen[x[0]][0],) + x[1]), fn_site(p, 'JulianDay::get_solar_day'))

    # instants: the term's own start second, one second either side, midnight and last second of term days, noon elsewhere
    # fractional seconds: the reported start of a term is its instant rounded to the second
    sec = dict((i, (i * 3607 + 1234) % 86000 + 100 + (0.4 if i % 2 else 0.6)) for i in range(24))
    scen_t = [('modern', typical_terms(range(Y - 1, Y + 3), sec=sec)), ('julian-era (-12 d)', typical_terms(range(Y - 1, Y + 3), shift=dict((i, -12) for i in range(24)), sec=sec))]

    def crit(tm):
        out = set()
        for (ty, ti), (tn, ts) in tm.items():
            if CAL.from_jdn(tn)[0] == Y:
                rs = int(ts + 0.5)
                for ds in (-1, 0, 1):
                    if 0 <= rs + ds < 86400:
                        out.add((tn, rs + ds))
                out.add((tn, 0))
                out.add((tn, 86399))
        for n in days[::3]:
            out.add((n, 43200))
        return sorted(x for x in out if CAL.from_jdn(x[0])[0] == Y)

    def term_of_time(x):
        si, n, s = x
        cm = CalModel(I, scen_t[si][1], months)
        st = t.m(cm.solar_time_n(n, s), 'get_term')
        return (py(t.m(st, 'get_year')), py(t.m(st, 'get_index')))

    def term_of_time_orc(x):
        si, n, s = x
        tm = scen_t[si][1]
        _, (ty, ti) = max(((v[0], int(v[1] + 0.5)), k) for k, v in tm.items() if (v[0], int(v[1] + 0.5)) <= (n, s))
        return (ty, ti)
    table(ctx, 'PETE-SCENARIO', 'SolarTime::get_term', [(si, n, s) for si in range(len(scen_t)) for (n, s) in crit(scen_t[si][1])], term_of_time, term_of_time_orc,
          'each instant is assigned the latest term that starts on or before it (the term\'s own start second included)',
          lambda x: '%s %d-%02d-%02d %02d:%02d:%02d' % ((scen_t[x[0]][0],) + CAL.from_jdn(x[1]) + (x[2] // 3600, x[2] // 60 % 60, x[2] % 60)), fn_site(p, 'SolarTime::get_term'))

    # ---- the two ends of the supported range (first days of 0001, last days of 9999, last lunar year)
    from rules import range_end as _re
    _Ie = ctx.interp(fuel=50000000)
    _re.c06_edge(ctx, _Ie, T(_Ie))

    ctx.assumptions.append('term days / instants are scenario inputs; civil date <-> day number replaced by the calendar oracle (C01)')
    ctx.not_decided.append('that successive term instants increase 14.6-15.8 days apart and day indices never exceed 16 on the real calendar (series values: C05)')
    return ('sibling constructors compared under two series stubs, index carries incl. year 0, Jie/Qi parity, and the day->term / instant->term searches evaluated for every day '
            'of a year under modern, Julian-era and far-future placements of the term days')
