# -*- coding: utf-8 -*-
"""C09 — hour pillar, 23:00 day roll-over and the eight-character round trip."""
from rlib import T, table, py, fn_site, Bottom, Unanalysable
from pete import SV, RInt, CellV, NONE, Opt
from calmodel import CalModel, typical_terms, synthetic_months
import calendar_oracle as CAL
import ganzhi as G
from rules.c08 import oracle_time

Y = 2000


def hour_pillar(day_pillar_idx, hour):
    """Five Rats: hour stem from the stem of the day that owns the hour (next day from 23:00)"""
    d = (day_pillar_idx + 1) % 60 if hour >= 23 else day_pillar_idx
    b = ((hour + 1) // 2) % 12
    s0 = G.STEMS.index(G.FIVE_RATS[G.STEMS[d % 10]])
    return G.STEMS[(s0 + b) % 10] + G.BRANCHES[b]


def run(ctx):
    ctx.exhaustive = False
    ctx.exhaustive_note = '60x24 tables complete; the inverse search is evaluated on 258 sampled (instant, range) pairs'
    from rules import shared
    ctx.include('effect_inventory', shared.effect_inventory)   # no new process-wide mutable state (MIR statics inventory)
    ctx.include('jd_tables', shared.jd_tables)           # civil date <-> day number and Julian date -> clock (term instants become days / instants through them)
    ctx.include('month_records', shared.month_records)   # leap table, solstice anchor, month memo, memo cells (shared, cached per source hash)
    I = ctx.interp(fuel=60000000)
    t = T(I)
    p = ctx.prog
    R = 'PETE-TABLE'
    ctx.rule(R, 'finite table vs oracle (all 60 day pillars x 24 hours)')
    ctx.rule('PETE-SCENARIO', 'real code evaluated on scenario calendars (numeric layer replaced by oracles)')
    ctx.rule('WIRING', 'eight characters are exactly (year, month, day, hour) pillars in that order, through every provider')
    ctx.rule('INVERSE-SOUND', 'every instant returned by the inverse search has the requested eight characters')
    ctx.rule('INVERSE-REACH', 'the inverse search returns an instant inside the double-hour of the originating instant')

    def jd(n):
        return SV('JulianDay', {'day': float(n)})

    def lunar_day_with_pillar(pidx):
        n = 2451545
        while (n + 49) % 60 != pidx:
            n += 1
        lm = SV('LunarMonth', {'year': SV('LunarYear', {'year': RInt(2000, 'isize')}), 'month': RInt(1, 'usize'), 'leap': False, 'day_count': RInt(30, 'usize'),
                               'index_in_year': RInt(0, 'usize'), 'first_julian_day': jd(n)})
        return SV('LunarDay', {'month': lm, 'day': RInt(1, 'usize'), 'solar_day': CellV(NONE, 'refcell'), 'sixty_cycle_day': CellV(NONE, 'refcell')})

    def lunar_hour(pidx, hour):
        return SV('LunarHour', {'day': lunar_day_with_pillar(pidx), 'hour': RInt(hour, 'usize'), 'minute': RInt(0, 'usize'), 'second': RInt(0, 'usize'),
                                'solar_time': CellV(NONE, 'refcell'), 'sixty_cycle_hour': CellV(NONE, 'refcell')})
    dom = [(d, h) for d in range(60) for h in range(24)]
    fm = lambda x: u'日%s %02d时' % (G.sixty(x[0]), x[1])
    table(ctx, R, 'LunarHour::get_sixty_cycle', dom, lambda x: t.name(t.m(lunar_hour(x[0], x[1]), 'get_sixty_cycle')), lambda x: hour_pillar(x[0], x[1]),
          u'hour pillar: branch floor((h+1)/2) mod 12, stem by 五鼠遁 from the day stem, next day\'s stem from 23:00', fm, fn_site(p, 'LunarHour::get_sixty_cycle'))
    table(ctx, R, 'LunarHour::get_index_in_day', range(24), lambda h: py(t.m(lunar_hour(0, h), 'get_index_in_day')), lambda h: (h + 1) // 2, 'lunar-hour slot index 0..12', str)
    table(ctx, R, 'LunarHour::get_name', range(24), lambda h: t.name(lunar_hour(0, h)), lambda h: G.BRANCHES[((h + 1) // 2) % 12] + u'时', 'hour name = branch of the double-hour', str)

    # ---- instant view on a scenario calendar: 60 consecutive days x 24 hours
    lichun = CAL.jdn(Y, 2, 4)
    terms = typical_terms(range(Y - 1, Y + 3))
    months = synthetic_months(Y, lichun + 3, 2, prev_months=3)
    n0 = CAL.jdn(Y, 3, 1)

    def inst(x):
        d, h = x
        cm = CalModel(I, terms, months)
        st = cm.solar_time_n(n0 + d, h * 3600 + 1799)
        sh = I.call('SixtyCycleHour::from_solar_time', [st])
        ec = t.m(sh, 'get_eight_char')
        scd = t.m(sh, 'get_sixty_cycle_day')      # the day value the instant-level view reports: its own (rolled, instant-level) day, not the civil day's
        if (t.name(t.m(scd, 'get_sixty_cycle')), t.name(t.m(scd, 'get_year')), t.name(t.m(scd, 'get_month'))) != (t.name(t.m(sh, 'get_day')), t.name(t.m(sh, 'get_year')), t.name(t.m(sh, 'get_month'))):
            return 'SixtyCycleHour::get_sixty_cycle_day reports %s %s %s, the view itself %s %s %s' % (t.name(t.m(scd, 'get_year')), t.name(t.m(scd, 'get_month')), t.name(t.m(scd, 'get_sixty_cycle')),
                                                                                                    t.name(t.m(sh, 'get_year')), t.name(t.m(sh, 'get_month')), t.name(t.m(sh, 'get_day')))
        return (t.name(t.m(sh, 'get_day')), t.name(t.m(sh, 'get_sixty_cycle')), py(t.m(sh, 'get_index_in_day')), t.name(ec))

    def inst_orc(x):
        d, h = x
        n = n0 + d
        pidx = (n + 49) % 60
        dp = G.sixty((pidx + 1) % 60 if h == 23 else pidx)
        hp = hour_pillar(pidx, h)
        yp, mp = oracle_time(terms, Y, n, h * 3600 + 1799)
        return (dp, hp, 0 if h == 23 else (h + 1) // 2, u'%s %s %s %s' % (yp, mp, dp, hp))
    table(ctx, 'PETE-SCENARIO', 'SixtyCycleHour::from_solar_time:day-roll', dom, inst, inst_orc,
          'instant view: day pillar is the next day\'s from 23:00, hour pillar by Five Rats, slot index, and the eight characters are year/month/day/hour in order',
          lambda x: 'day+%d %02d:29:59' % x, fn_site(p, 'SixtyCycleHour::from_solar_time'))

    # ---- composition at the exact second a Jie (and Lichun) starts: a term starts at its instant ROUNDED to the second, for all four characters alike
    sec_f = dict((i, (i * 3607 + 1234) % 86000 + 100 + (0.4 if i % 4 in (0, 3) else 0.6)) for i in range(24))
    terms_f = typical_terms(range(Y - 1, Y + 3), sec=sec_f)

    def at_jie(x):
        n, s_ = x
        cm = CalModel(I, terms_f, months)
        st = cm.solar_time_n(n, s_)
        return t.name(t.m(I.call('SixtyCycleHour::from_solar_time', [st]), 'get_eight_char'))

    def at_jie_orc(x):
        n, s_ = x
        pidx = (n + 49) % 60
        h = s_ // 3600
        yp, mp = oracle_time(terms_f, Y, n, s_)
        return u'%s %s %s %s' % (yp, mp, G.sixty((pidx + 1) % 60 if h == 23 else pidx), hour_pillar(pidx, h))
    jdom = sorted(set((tn, int(ts + 0.5) + ds) for (ty, ti), (tn, ts) in terms_f.items() if ti % 2 == 1 and CAL.from_jdn(tn)[0] == Y and any(r['first'] <= tn < r['first'] + r['count'] for r in months)
                      for ds in (-1, 0, 1) if 0 <= int(ts + 0.5) + ds < 86400))
    table(ctx, 'PETE-SCENARIO', 'eight-characters:at-the-Jie-second', jdom, at_jie, at_jie_orc,
          'the eight characters one second before, at and one second after the (rounded) start of every Jie of a year are the four pillars of that instant (year and month change together at Lichun)',
          lambda x: '%d-%02d-%02d +%ds' % (CAL.from_jdn(x[0]) + (x[1],)), fn_site(p, 'SixtyCycleHour::from_solar_time'))

    # ---- wiring through the providers (LunarHour::get_eight_char uses the registered provider)
    def via_provider(x):
        d, h = x
        cm = CalModel(I, terms, months)
        st = cm.solar_time_n(n0 + d, h * 3600 + 5)
        lh = t.m(st, 'get_lunar_hour')
        a = t.name(t.m(lh, 'get_eight_char'))
        sect2 = I.call('LunarSect2EightCharProvider::new', [])
        b = t.name(I.method(sect2, 'get_eight_char', t.m(st, 'get_lunar_hour')))
        return (a, b)

    def via_provider_orc(x):
        d, h = x
        n = n0 + d
        pidx = (n + 49) % 60
        yp, mp = oracle_time(terms, Y, n, h * 3600 + 5)
        hp = hour_pillar(pidx, h)
        dp1 = G.sixty((pidx + 1) % 60 if h == 23 else pidx)
        dp2 = G.sixty(pidx)   # sect 2: the day pillar does not roll at 23:00
        return (u'%s %s %s %s' % (yp, mp, dp1, hp), u'%s %s %s %s' % (yp, mp, dp2, hp))
    table(ctx, 'WIRING', 'EightCharProvider::get_eight_char', [(d, h) for d in range(0, 60, 7) for h in (0, 1, 11, 12, 22, 23)], via_provider, via_provider_orc,
          'default provider = instant view; sect-2 provider keeps the civil day\'s pillar at 23:00', lambda x: 'day+%d %02d:00:05' % x, fn_site(p, 'LunarSect2EightCharProvider::get_eight_char'))

    def ec_fields(i):
        ec = I.call('EightChar::from_sixty_cycle', [t.sixty(i), t.sixty((i + 7) % 60), t.sixty((i + 19) % 60), t.sixty((i + 31) % 60)])
        return (t.name(t.m(ec, 'get_year')), t.name(t.m(ec, 'get_month')), t.name(t.m(ec, 'get_day')), t.name(t.m(ec, 'get_hour')), t.name(ec))
    table(ctx, 'WIRING', 'EightChar::from_sixty_cycle', range(60), ec_fields,
          lambda i: (G.sixty(i), G.sixty((i + 7) % 60), G.sixty((i + 19) % 60), G.sixty((i + 31) % 60), u' '.join([G.sixty(i), G.sixty((i + 7) % 60), G.sixty((i + 19) % 60), G.sixty((i + 31) % 60)])),
          'constructor maps its four same-typed arguments to the same-named fields / getters', G.sixty, fn_site(p, 'EightChar::from_sixty_cycle'))

    # ---- inverse search on a 75-year scenario
    lo, hi = 1990, 2064
    terms_l = typical_terms(range(lo - 1, hi + 2))
    months_l = synthetic_months(lo, CAL.jdn(lo, 2, 1), hi - lo + 1, prev_months=3)
    samples = []
    for (mo, dd) in ((3, 10), (2, 4), (2, 5), (8, 8), (1, 6), (12, 31), (1, 1)):
        for h in (0, 1, 3, 6, 9, 11, 13, 14, 17, 20, 22, 23):
            samples.append((2000, mo, dd, h, 30, 0))
    # on the Jie day itself, in the hour of the Jie instant (the "extreme case" branch)
    tn, ts = terms_l[(2000, 5)]
    yy, mm, dd = CAL.from_jdn(tn)
    samples.append((yy, mm, dd, ts // 3600, ts // 60 % 60, ts % 60))

    # each sample is searched over a wide range and over the single civil year of the instant (range edges)
    samples = [(x, rng) for x in samples for rng in ((1995, 2060), (x[0], x[0]), (x[0] - 4, x[0] + 1))]
    samples += [((2000, 1, 20, 0, 15, 0), (2000, 2000)), ((2000, 1, 3, 12, 15, 0), (2000, 2001)), ((2001, 2, 1, 8, 0, 0), (2001, 2001))]

    # the same with every Jie late in the evening (23:17): from 23:00 an instant-level view of the Jie shows the NEXT day's pillar, the day count of the
    # search must start from the pillar of the Jie's civil day
    terms_late = typical_terms(range(lo - 1, hi + 2), sec=dict((i, 23 * 3600 + 17 * 60) for i in range(1, 24, 2)))
    samples += [((2000, mo, dd, h, 30, 0), rng, True) for (mo, dd) in ((3, 10), (12, 20), (8, 8)) for h in (0, 10, 14, 23) for rng in ((1995, 2060), (2000, 2000))]

    def search(xr):
        x, rng = xr[0], xr[1]
        cm = CalModel(I, terms_late if len(xr) > 2 else terms_l, months_l)
        st = cm.solar_time(*x)
        ec = t.m(t.m(st, 'get_lunar_hour'), 'get_eight_char')
        want = t.name(ec)
        res = t.m(ec, 'get_solar_times', rng[0], rng[1])
        unsound = []
        inside = False
        h0 = x[3]
        slot = lambda hh: ((hh + 1) // 2) % 12
        for r in res:
            got = t.name(t.m(t.m(r, 'get_lunar_hour'), 'get_eight_char'))
            if got != want:
                unsound.append(I.display(r))
            y2, m2, d2, h2 = py(t.m(r, 'get_year')), py(t.m(r, 'get_month')), py(t.m(r, 'get_day')), py(t.m(r, 'get_hour'))
            same_day = (y2, m2, d2) == x[:3]
            next_day = CAL.jdn(y2, m2, d2) == CAL.jdn(*x[:3]) + 1
            prev_day = CAL.jdn(y2, m2, d2) == CAL.jdn(*x[:3]) - 1
            if slot(h2) == slot(h0):
                if h0 == 23 and ((same_day and h2 == 23) or (next_day and h2 == 0)):
                    inside = True
                elif h0 == 0 and ((same_day and h2 == 0) or (prev_day and h2 == 23)):
                    inside = True
                elif h0 not in (0, 23) and same_day:
                    inside = True
        return (len(unsound) == 0, inside)
    bad_sound, bad_reach = [], []
    try:
        from rlib import pmap

        def one(x):
            try:
                return search(x)
            except Bottom as b:
                return ('PANIC', b.reason)
        res = pmap(one, samples, None)
        for x, r in zip(samples, res):
            if r[0] == 'PANIC':
                bad_sound.append((x, r[1]))
                continue
            if not r[0]:
                bad_sound.append((x, 'returned instant with other eight characters'))
            if not r[1]:
                bad_reach.append(x)
        if bad_sound:
            ctx.violation('INVERSE-SOUND', 'EightChar::get_solar_times:sound', 'inverse search unsound/panics for %d of %d sample instants; first %s: %s' % (len(bad_sound), len(samples), bad_sound[0][0], bad_sound[0][1]), {'bad': bad_sound[:8]}, len(samples))
        else:
            ctx.ok('INVERSE-SOUND', len(samples), {'fn': fn_site(p, 'EightChar::get_solar_times'), 'samples': len(samples)})
        if bad_reach:
            ctx.violation('INVERSE-REACH', 'EightChar::get_solar_times:hour', 'inverse search returns no instant inside the originating double-hour for %d of %d sample instants (hour branches %s); first: instant %s searched over years %s' %
                          (len(bad_reach), len(samples), sorted(set(G.BRANCHES[((x[0][3] + 1) // 2) % 12] for x in bad_reach)), bad_reach[0][0], bad_reach[0][1]), {'bad': bad_reach[:12]}, len(samples))
        else:
            ctx.ok('INVERSE-REACH', len(samples))
    except Unanalysable as u:
        ctx.unanalysable('INVERSE-SOUND', 'EightChar::get_solar_times', str(u))

    # soundness for ARBITRARY requested characters (not only instant-derived ones): whatever is returned must have exactly them
    def arb(x):
        base, ds, dh = x
        cm = CalModel(I, terms_l, months_l)
        ec0 = t.m(t.m(cm.solar_time(*base), 'get_lunar_hour'), 'get_eight_char')
        y, m_, d, h = [t.idx(t.m(ec0, g)) for g in ('get_year', 'get_month', 'get_day', 'get_hour')]
        # shift the hour stem (keeping the branch) and/or the day pillar parity-consistently
        h2 = (h + 12 * dh) % 60
        d2 = (d + ds) % 60
        ec = I.call('EightChar::from_sixty_cycle', [t.sixty(y), t.sixty(m_), t.sixty(d2), t.sixty(h2)])
        want = t.name(ec)
        res = t.m(ec, 'get_solar_times', 1995, 2060)
        return [I.display(r) for r in res if t.name(t.m(t.m(r, 'get_lunar_hour'), 'get_eight_char')) != want]
    table(ctx, 'INVERSE-SOUND', 'EightChar::get_solar_times:sound-arbitrary', [(b, ds, dh) for b in ((2000, 3, 10, 0, 30, 0), (2000, 3, 10, 14, 30, 0), (2024, 3, 1, 0, 10, 0)) for ds in (0, 1) for dh in (0, 1, 2, 3, 4)],
          arb, lambda x: [], 'for arbitrary requested characters (hour stem not following Five Rats, shifted day pillar) every returned instant has exactly those characters', str, fn_site(p, 'EightChar::get_solar_times'))

    # ---- the two ends of the supported range
    from rules import range_end as _re
    _Ie = ctx.interp(fuel=50000000)
    _re.c09_edge(ctx, _Ie, T(_Ie))

    ctx.assumptions.append('numeric layer replaced by oracles (civil date <-> day number, term instants, lunar month table): C01, C05/C06, C02/C03')
    ctx.not_decided.append('completeness of the inverse search over arbitrary year ranges on the real calendar (needs the real term instants)')
    return ('hour pillar / day roll-over as exhaustive 60x24 tables (lunar view and instant view), eight-character wiring through constructor and both providers, '
            'and the inverse search evaluated on a 75-year scenario calendar for soundness and reach of every double-hour')
