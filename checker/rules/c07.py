# -*- coding: utf-8 -*-
"""C07 — day pillar and weekday advance one step per civil day from fixed anchors."""
from rlib import T, table, py, fn_site, Bottom, Unanalysable
from pete import SV, RInt, CellV, NONE
from calmodel import CalModel, typical_terms, synthetic_months
import calendar_oracle as CAL
import ganzhi as G


def run(ctx):
    ctx.exhaustive = False
    ctx.exhaustive_note = 'anchor tables and (year, month) tables complete; route agreement over ~470 consecutive scenario days'
    from rules import shared
    ctx.include('effect_inventory', shared.effect_inventory)   # no new process-wide mutable state (MIR statics inventory)
    ctx.include('month_records', shared.month_records)   # leap table, solstice anchor, month memo, memo cells (shared, cached per source hash)
    ctx.include('jd_tables', shared.jd_tables)           # civil date <-> day number per (year, month) (shared, cached per source hash)
    p = ctx.prog
    I = ctx.interp(fuel=100000000)
    t = T(I)
    ctx.rule('AFFINE-ANCHOR', 'pillar / weekday as functions of the day number: anchors in the right residue class, stem and branch fed the same value')
    ctx.rule('PETE-SCENARIO', 'every public route to the day pillar / weekday evaluated on a scenario calendar across lunar month ends, year ends and the 1582 cut-over')

    # ---- anchor of the lunar-date pillar: (first day of the month as day number, day of month) -> pillar
    def ld(first_n, day):
        lm = SV('LunarMonth', {'year': SV('LunarYear', {'year': RInt(2000, 'isize')}), 'month': RInt(1, 'usize'), 'leap': False, 'day_count': RInt(30, 'usize'),
                               'index_in_year': RInt(0, 'usize'), 'first_julian_day': SV('JulianDay', {'day': float(first_n)})})
        return SV('LunarDay', {'month': lm, 'day': RInt(day, 'usize'), 'solar_day': CellV(NONE, 'refcell'), 'sixty_cycle_day': CellV(NONE, 'refcell')})
    dom = [(n, d) for n in list(range(2451545, 2451545 + 60)) + [1721424, 1721425, 2299160, 5373484 - 29] for d in (1, 2, 15, 29, 30)]
    table(ctx, 'AFFINE-ANCHOR', 'LunarDay::get_sixty_cycle', dom, lambda x: t.name(t.m(ld(x[0], x[1]), 'get_sixty_cycle')), lambda x: G.sixty((x[0] + x[1] - 1 + 49) % 60),
          'day pillar = (day number + 49) mod 60 with day number = first day of the lunar month + day - 1; stem and branch from the same value', str, fn_site(p, 'LunarDay::get_sixty_cycle'))
    wk = py(I.static('WEEK_NAMES', 'src/tyme/culture/mod.rs'))
    table(ctx, 'AFFINE-ANCHOR', 'JulianDay::get_week', [n + f for n in list(range(2451545, 2451545 + 14)) + [1721424, 2299160, 2299161, 5373484] for f in (-0.5, 0.0, 0.49)],
          lambda x: t.name(t.m(SV('JulianDay', {'day': float(x)}), 'get_week')), lambda x: wk[(int(x + 0.5) + 1) % 7], 'weekday = (day number + 1) mod 7, Sunday = 0', str, fn_site(p, 'JulianDay::get_week'))
    ctx.guard('AFFINE-ANCHOR', 'NAMES:WEEK_NAMES', lambda: None if wk == [u'日', u'一', u'二', u'三', u'四', u'五', u'六'] else 'WEEK_NAMES is not Sunday-first', 7)

    # ---- routes on scenario calendars: a year around 2000 and the cut-over year 1582
    def scenario(Y, ny):
        return Y, typical_terms(range(Y - 2, Y + 3)), synthetic_months(Y - 1, ny, 3, leap={Y: 4}, prev_months=3)
    scen = [scenario(2000, CAL.jdn(1999, 2, 16)), scenario(1582, CAL.jdn(1581, 2, 4)),
            # a leap 12th month at the end of the previous lunar year: the civil days of January / February sit in months 11, 12, leap 12 and 1
            (2000, typical_terms(range(1998, 2003)), synthetic_months(1999, CAL.jdn(1999, 1, 24), 2, leap={1999: 12}, prev_months=3, auto_leap=False))]

    def routes(x):
        si, n = x
        Y, terms, months = scen[si]
        cm = CalModel(I, terms, months)
        del I.overrides['SolarDay::get_lunar_day']      # the repository's own search for the lunar month (backwards and forwards over the month records)
        sd = cm.solar_day_n(n)
        lunar = t.m(sd, 'get_lunar_day')
        a = t.name(t.m(lunar, 'get_sixty_cycle'))                              # via the lunar date
        scd = t.m(sd, 'get_sixty_cycle_day')
        b = t.name(t.m(scd, 'get_sixty_cycle'))                                # via the sexagenary-day view
        c = t.name(t.m(t.m(t.m(scd, 'get_solar_day'), 'get_lunar_day'), 'get_sixty_cycle'))
        d = t.name(t.m(t.m(lunar, 'get_sixty_cycle_day'), 'get_sixty_cycle'))  # lunar -> sexagenary day
        h = t.name(t.m(I.call('SixtyCycleHour::from_solar_time', [cm.solar_time_n(n, 43200)]), 'get_day'))
        w1 = t.idx(t.m(sd, 'get_week'))
        w2 = t.idx(t.m(lunar, 'get_week'))
        back = cm.n_of(t.m(lunar, 'get_solar_day'))
        # the 23:00 hour view reports the NEXT day's pillar, and asking it first must not disturb what its lunar day answers afterwards
        lh = t.m(cm.solar_time_n(n, 84600), 'get_lunar_hour')
        h23 = t.name(t.m(t.m(lh, 'get_sixty_cycle_hour'), 'get_day'))
        after = t.name(t.m(t.m(t.m(lh, 'get_lunar_day'), 'get_sixty_cycle_day'), 'get_sixty_cycle'))
        own = t.name(t.m(t.m(lh, 'get_lunar_day'), 'get_sixty_cycle'))
        return (a, b, c, d, h, w1, w2, back, h23, after, own)

    def routes_orc(x):
        si, n = x
        pn = G.sixty((n + 49) % 60)
        return (pn, pn, pn, pn, pn, (n + 1) % 7, (n + 1) % 7, n, G.sixty((n + 50) % 60), pn, pn)
    dom2 = [(0, n) for n in range(CAL.jdn(1999, 12, 20), CAL.jdn(2001, 1, 15))] + [(1, n) for n in range(CAL.jdn(1582, 9, 1), CAL.jdn(1582, 11, 30))] \
        + [(2, n) for n in range(CAL.jdn(1999, 11, 25), CAL.jdn(2000, 3, 20))]
    table(ctx, 'PETE-SCENARIO', 'day-pillar:all-routes', dom2, routes, routes_orc,
          'the pillar is the same via the lunar date, the sexagenary-day view, the instant view and the civil date, and advances by one per civil day across lunar month ends, year ends and the 1582 cut-over; same for the weekday',
          lambda x: '%d-%02d-%02d' % CAL.from_jdn(x[1]), fn_site(p, 'SixtyCycleDay::from_solar_day'))

    # ---- the lunar route needs the REAL month records to tile across lunar years (shared with C02 / C03): where they do not, the lunar date of a civil
    # day - and with it the pillar obtained through it - is wrong
    from rules import c03 as _c03
    try:
        _c03.chain_rule(ctx, _c03.leap_table(ctx.interp()))
    except (Unanalysable, Bottom) as u:
        ctx.unanalysable('TILE-CHAIN', 'TILE:LunarMonth::new:offsets', str(u))

    # ---- the two ends of the supported range (first days of 0001, last days of 9999, last lunar year)
    from rules import range_end as _re
    _Ie = ctx.interp(fuel=50000000)
    _re.c07_edge(ctx, _Ie, T(_Ie))

    ctx.assumptions.append('inside the scenario evaluation the civil date <-> day number layer is the calendar oracle; that layer itself is decided by the per-month Julian-day tables above')
    ctx.not_decided.append('that the first day of month k+1 is the first day of month k plus its length on the REAL lunar calendar (C03 numerics); the scenario calendars tile by construction')
    return ('pillar and weekday anchors as residue-class tables; every public route to the day pillar / weekday evaluated for ~480 consecutive days on scenario calendars incl. the 1582 cut-over')
