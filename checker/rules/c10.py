# -*- coding: utf-8 -*-
"""C10 — answers do not depend on call history, thread interleaving or earlier refusals.

Effect / lock / ownership analysis on the type-checked MIR (tools/mirfacts) plus syntax facts and a
memo-transparency evaluation of the one memo with a stub constructor.
"""
import re
from rlib import T, table, py, fn_site, Bottom, Unanalysable
from pete import SV, RInt, Res, CellV
from prog import walk

INTERIOR = re.compile(r'\b(Mutex|RwLock|RefCell|Cell|UnsafeCell|OnceCell|OnceLock|LazyCell|LazyLock|Atomic[A-Za-z0-9]+|Condvar|Once)\b')
# shared mutable state accepted on today's tree, each with the argument that keeps queries pure
STATE_OK = {
    'tyme::lunar::LUNAR_MONTH_CACHE': 'memo of LunarMonth::new keyed by (year, month): transparency is decided below (MEMO rules)',
    'tyme::lunar::EIGHT_CHAR_PROVIDER': 'strategy box; no library (non-test) function writes it (WRITER rule)',
    'tyme::eightchar::CHILD_LIMIT_PROVIDER': 'strategy box; no library (non-test) function writes it (WRITER rule)',
}
IMPURE = re.compile(r'^(std::time|std::env|std::fs|std::net|std::process|std::thread|std::io::(stdin|Read|Write|stdout|stderr)|rand|getrandom|chrono|std::os|std::sync::mpsc)')
PANICKY = re.compile(r'(::unwrap$|::expect$|::unwrap_err$|core::panicking|std::rt::begin_panic|core::option::unwrap_failed|core::result::unwrap_failed|::unimplemented|panic_fmt|panic_display|::expect_err$)')
HASH_ITER = re.compile(r'(HashMap|HashSet)<.*>.*(::iter$|::into_iter$|::keys$|::values$|::drain$|::iter_mut$|::values_mut$|::into_keys$|::into_values$)|<std::collections::(HashMap|HashSet)<.*> as std::iter::IntoIterator>::into_iter')


def short(path):
    return path.replace('tyme::', '', 1) if path.startswith('tyme::') else path


def inventory(ctx):
    """inventory of process-wide mutable state (MIR statics + thread_local + unsafe) against the frozen list"""
    p = ctx.prog
    mir = ctx.mir
    ctx.rule('EFFECT-INVENTORY', 'inventory of shared mutable state: every static with interior mutability / `static mut` / thread_local / unsafe is on the frozen list')
    ctx.floor('EFFECT-INVENTORY', 'MIR function bodies', len(mir['fns']), 1100)
    # ------------------------------------------------------------------ 1. inventory
    statics = [s for s in mir['statics'] if '__stability' not in s['path']]
    lazies = dict((s['path'].split(' as ')[0].lstrip('<'), s) for s in mir['statics'] if '__stability' in s['path'])
    mutable = []
    for s in statics:
        ty = lazies[s['path']]['ty'] if s['path'] in lazies else s['ty']
        if s['mut'] or INTERIOR.search(ty.replace('lazy_static::lazy::Lazy', '')):
            mutable.append((s['path'], ty))
    new = [m for m in mutable if m[0] not in STATE_OK]
    if new:
        ctx.violation('EFFECT-INVENTORY', 'EFFECT:new-shared-state:%s' % short(new[0][0]), 'new process-wide mutable state %s : %s — query results may now depend on call history / interleaving; it is not on the frozen list %s' % (short(new[0][0]), new[0][1][:120], sorted(short(k) for k in STATE_OK)), {'new': new})
    else:
        ctx.ok('EFFECT-INVENTORY', len(statics), {'statics': len(statics), 'mutable': [short(m[0]) for m in mutable]})
    ctx.floor('EFFECT-INVENTORY', 'mutex statics', len([m for m in mutable if 'Mutex' in m[1]]), 3)
    # thread_local!, unsafe
    tl = []
    for f in p.facts['files']:
        def v(n, f=f):
            if n.get('k') == 'item_macro' and n.get('name') in ('thread_local',):
                tl.append((f['file'], n.get('ln')))
        walk(f['items'], v)
    unsafe_fns = [f['path'] for f in mir['fns'] if f.get('unsafe_fn')]
    unsafe_impls = [i for i in mir['impls'] if i['safety'] != 'Safe']
    if tl:
        ctx.violation('EFFECT-INVENTORY', 'EFFECT:thread_local', 'thread_local! state at %s' % tl[:3])
    elif mir['unsafe_blocks'] or unsafe_fns or unsafe_impls:
        ctx.violation('EFFECT-INVENTORY', 'EFFECT:unsafe', 'unsafe code appeared (%d blocks, fns %s, impls %s): the ownership argument no longer holds by construction' % (mir['unsafe_blocks'], unsafe_fns[:3], unsafe_impls[:3]))
    else:
        ctx.ok('EFFECT-INVENTORY', 3, {'unsafe_blocks': 0, 'thread_local': 0, 'unsafe_impls': 0})
    # lazily initialised immutable tables: initialiser must be pure (checked by the purity closure below)



def run(ctx):
    ctx.exhaustive = (ctx.tier == 'thorough')
    ctx.exhaustive_note = 'MIR rules cover every function body and call site; the memo evaluation covers the quick key set (thorough: all 240,024 keys)'
    p = ctx.prog
    mir = ctx.mir
    fns = dict((f['path'], f) for f in mir['fns'])
    ctx.rule('EFFECT-WHO', 'who-may-touch: each mutable static is referenced only by its owning function; strategy boxes are never written by library code')
    ctx.rule('EFFECT-MEMO', 'memo transparency: injective key, value = f(args), writer/reader field agreement, one critical section, never cleared, refusals store nothing')
    ctx.rule('EFFECT-LOCK', 'lock discipline: no panic-capable call while a guard is live unless every acquisition tolerates poisoning; no re-entrancy; acyclic lock order')
    ctx.rule('EFFECT-PURE', 'purity: no clock / env / fs / net / thread / rng callee; hash-map iteration only where order cannot matter')
    ctx.rule('EFFECT-CELL', 'per-value memo cells: values with RefCell memo fields are only built with empty cells in their constructor; each cell written in one getter')
    ctx.floor('EFFECT-LOCK', 'MIR call sites', mir['n_calls'], 3500)

    inventory(ctx)

    # ------------------------------------------------------------------ call graph helpers
    def callees(path):
        f = fns.get(path)
        return f['calls'] if f else []
    # dyn calls: expand trait methods to all impls in the crate
    trait_impls = {}
    for path in fns:
        m = re.match(r'^<(.+) as (.+)>::([a-z_0-9]+)$', path)
        if m:
            trait_impls.setdefault((m.group(2), m.group(3)), []).append(path)

    def expand(c):
        m = re.match(r'^(tyme::.+)::([a-z_0-9]+)$', c)
        if m and (m.group(1), m.group(2)) in trait_impls and c not in fns:
            return trait_impls[(m.group(1), m.group(2))]
        return [c]

    def reach(start):
        seen = set()
        work = list(start)
        while work:
            c = work.pop()
            for x in expand(c):
                if x in seen:
                    continue
                seen.add(x)
                work.extend(callees(x))
        return seen

    # ------------------------------------------------------------------ 2. who may touch
    touch = {}
    for f in mir['fns']:
        for s in f['statics']:
            base = s.split(' as ')[0].lstrip('<')
            if base in STATE_OK:
                owner = f['path'].split('::{closure')[0]
                touch.setdefault(base, set()).add(owner)
    expected_owner = {'tyme::lunar::LUNAR_MONTH_CACHE': 'tyme::lunar::LunarMonth::from_ym', 'tyme::lunar::EIGHT_CHAR_PROVIDER': 'tyme::lunar::LunarHour::get_eight_char',
                      'tyme::eightchar::CHILD_LIMIT_PROVIDER': 'tyme::eightchar::ChildLimit::from_solar_time'}
    for st, owner in expected_owner.items():
        users = set(u for u in touch.get(st, set()) if not u.startswith('<' + st))
        extra = sorted(users - {owner})
        if not users:
            ctx.floor('EFFECT-WHO', 'users of %s' % short(st), 0, 1)
        elif extra:
            ctx.violation('EFFECT-WHO', 'EFFECT:%s:extra-user:%s' % (short(st), short(extra[0])), '%s is also touched by %s (only %s may use it)' % (short(st), [short(e) for e in extra], short(owner)))
        else:
            ctx.ok('EFFECT-WHO', 1, {'static': short(st), 'owner': short(owner)})
    # strategy boxes: no library function obtains DerefMut on their guards
    for f in mir['fns']:
        for g in f['guards']:
            if 'Provider' in g['ty']:
                if any('DerefMut' in c for c in g['calls_under']):
                    ctx.violation('EFFECT-WHO', 'EFFECT:provider-writer:%s' % short(f['path']), '%s writes a strategy box: a setter is new shared mutable state with a writer; results then depend on call history' % short(f['path']))
                else:
                    ctx.ok('EFFECT-WHO', 1, {'reader': short(f['path'])})

    # ------------------------------------------------------------------ 3. memo transparency (evaluation with a stub constructor)
    I = ctx.interp(fuel=400000000)
    t = T(I)
    built = []

    def stub_new(I_, r, a):
        y, m = py(a[0]), py(a[1])
        if m == 0 or abs(m) > 12 or y < -1 or y > 9999:
            return Res(u'illegal', False)
        built.append((y, m))
        return Res(SV('LunarMonth', {'year': SV('LunarYear', {'year': RInt(y, 'isize')}), 'month': RInt(abs(m), 'usize'), 'leap': m < 0,
                                     'day_count': RInt(29 + (y + m) % 2, 'usize'), 'index_in_year': RInt((abs(m) * 7 + (3 if m < 0 else 0)) % 13, 'usize'),
                                     'first_julian_day': SV('JulianDay', {'day': float(y * 400 + m * 30) + 0.5})}), True)
    I.overrides['LunarMonth::new'] = stub_new
    core = list(range(-1, 131)) + list(range(199, 206)) + list(range(1990, 2031)) + [9998, 9999]
    ys = set(core)
    for y in range(-1, 131):
        for d in range(10):
            v = y * 10 + d if y >= 0 else None
            if v is not None and v <= 9999:
                ys.add(v)
    for y in list(ys):
        if 0 <= y * 10 <= 9999 and y < 1000 and y in core:
            for d in range(10):
                ys.add(y * 10 + d)
    if ctx.tier == 'thorough':
        ys = set(range(-1, 10000))     # the whole key domain: 240,024 requests in one process
    ys = sorted(ys)
    keys = [(y, m) for y in ys for m in list(range(1, 13)) + list(range(-12, 0))]

    def sig(v):
        return (py(t.m(v, 'get_year')), py(t.m(v, 'get_month_with_leap')), py(t.m(v, 'get_day_count')), py(t.m(v, 'get_index_in_year')), t.m(t.m(v, 'get_first_julian_day'), 'get_day'))

    def memo():
        bad = None
        first = {}
        for (y, m) in keys:
            v = I.call('LunarMonth::from_ym', [y, m])
            s = sig(v)
            first[(y, m)] = s
            if s[0] != y or s[1] != m:
                return ('LunarMonth::from_ym(%d, %d) returned the month (%d, %d): the memo key is not injective (another request stored under the same key)' % (y, m, s[0], s[1]), {})
        n_built = len(built)
        for (y, m) in keys[::3]:
            v = I.call('LunarMonth::from_ym', [y, m])
            if sig(v) != first[(y, m)]:
                return ('second request for (%d, %d) answers %s, first answered %s: memo writer and reader disagree on the stored fields' % (y, m, sig(v), first[(y, m)]), {})
        if len(built) != n_built:
            return 'a repeated request rebuilt the month: the memo is not consulted'
        # refusal leaves no trace
        before = len(py_map_size(I))
        for bad_req in ((2023, 13), (2023, 0), (10000, 1)):
            try:
                I.call('LunarMonth::from_ym', list(bad_req))
                return 'LunarMonth::from_ym%s was not refused' % (bad_req,)
            except Bottom:
                pass
        if len(py_map_size(I)) != before:
            return 'a refused request left an entry in the memo'
        return None

    def py_map_size(I_):
        c = I_.static('LUNAR_MONTH_CACHE', 'src/tyme/lunar.rs')
        return c.v if isinstance(c, CellV) else c
    ctx.guard('EFFECT-MEMO', 'EFFECT:LunarMonth::from_ym:memo-transparent', memo, len(keys) + len(keys) // 3 + 3, {'keys': len(keys), 'site': fn_site(p, 'LunarMonth::from_ym')})
    # one critical section, never cleared
    fy = fns.get('tyme::lunar::LunarMonth::from_ym')
    if fy is None or not fy['guards']:
        ctx.floor('EFFECT-MEMO', 'cache guard in LunarMonth::from_ym', 0, 1)
    else:
        gs = fy['guards']
        under = set(c for g in gs for c in g['calls_under'])
        shrink = [c for c in under if re.search(r'HashMap.*::(clear|remove|retain|drain|remove_entry)$', c)]
        one = [g for g in gs if any('::get' in c or 'contains_key' in c or '::entry' in c for c in g['calls_under']) and any('::insert' in c or '::entry' in c for c in g['calls_under'])]
        if shrink:
            ctx.violation('EFFECT-MEMO', 'EFFECT:LunarMonth::from_ym:cache-shrinks', 'the memo is cleared / entries removed (%s): later answers depend on history only if values differ, but the never-shrinks argument is gone' % shrink)
        elif not one:
            ctx.violation('EFFECT-MEMO', 'EFFECT:LunarMonth::from_ym:check-then-act', 'lookup and insert do not happen under one guard: two threads can interleave between check and insert')
        else:
            ctx.ok('EFFECT-MEMO', 2, {'critical_section': short(fy['path'])})

    # ------------------------------------------------------------------ 4. lock discipline
    def panicky(c):
        return bool(PANICKY.search(c))
    may_panic = {}

    def fn_may_panic(path, stack=()):
        if path in may_panic:
            return may_panic[path]
        if path in stack:
            return False
        f = fns.get(path)
        if f is None:
            r = panicky(path)
            may_panic[path] = r
            return r
        r = bool(f['bounds_checks'] or f['div_checks'])
        if not r:
            for c in f['calls']:
                for x in expand(c):
                    if panicky(x) or (x.startswith('tyme::') or x.startswith('<tyme::')) and fn_may_panic(x, stack + (path,)):
                        r = True
                        break
                if r:
                    break
        may_panic[path] = r
        return r
    guard_sites = [(f, g) for f in mir['fns'] for g in f['guards']]
    ctx.floor('EFFECT-LOCK', 'lock acquisition sites', len(guard_sites), 3)
    lock_edges = set()
    for f, g in guard_sites:
        which = [s.split(' as ')[0].lstrip('<') for s in f['statics'] if s.split(' as ')[0].lstrip('<') in STATE_OK] or fns.get(f['path'].split('::{closure')[0], f)['statics']
        mutex = which[0] if which else '?'
        tolerant = not g['def_call'].endswith('::unwrap') and not g['def_call'].endswith('::expect')
        risky = []
        for c in g['calls_under']:
            if 'MutexGuard' in c or c.startswith('std::collections::HashMap') or c.startswith('std::vec::Vec') or c.startswith('<std::') and 'unwrap' not in c:
                continue
            for x in expand(c):
                if panicky(x) or ((x.startswith('tyme::') or x.startswith('<tyme::')) and fn_may_panic(x)):
                    risky.append(x)
        key = 'EFFECT:%s:unwind-under-lock' % short(mutex)
        if risky and not tolerant:
            ctx.violation('EFFECT-LOCK', key, '%s holds the %s guard across calls that can panic (%s ...) and acquires it with `%s`: a refused request poisons the mutex and every later request panics' %
                          (short(f['path']), short(mutex), [short(r) for r in sorted(set(risky))[:3]], g['def_call'].split('::')[-1]), {'risky': sorted(set(risky))[:20]})
        else:
            ctx.ok('EFFECT-LOCK', len(g['calls_under']), {'site': short(f['path']), 'mutex': short(mutex), 'poison_tolerant': tolerant, 'panic_capable_calls_under_guard': len(set(risky))})
        # re-entrancy / lock order
        inner = reach([c for c in g['calls_under']])
        for other_f, other_g in guard_sites:
            if other_f['path'] in inner:
                ow = [s.split(' as ')[0].lstrip('<') for s in other_f['statics'] if s.split(' as ')[0].lstrip('<') in STATE_OK]
                lock_edges.add((mutex, ow[0] if ow else '?', short(f['path']), short(other_f['path'])))
    self_edges = [e for e in lock_edges if e[0] == e[1]]
    if self_edges:
        e = self_edges[0]
        ctx.violation('EFFECT-LOCK', 'EFFECT:%s:re-entrant' % short(e[0]), '%s re-acquires %s through %s while holding it: std mutexes self-deadlock' % (e[2], short(e[0]), e[3]))
    else:
        ctx.ok('EFFECT-LOCK', len(lock_edges) + 1, {'lock_order_edges': sorted((short(a), short(b)) for a, b, _, _ in lock_edges)})
    # cycle detection in the lock order
    g = {}
    for a, b, _, _ in lock_edges:
        g.setdefault(a, set()).add(b)

    def cyc(n, path):
        for m in g.get(n, ()):
            if m in path or cyc(m, path + (m,)):
                return True
        return False
    if any(cyc(n, (n,)) for n in g if not any(a == b for a, b, _, _ in lock_edges)):
        ctx.violation('EFFECT-LOCK', 'EFFECT:lock-order-cycle', 'lock acquisition order has a cycle: %s' % sorted((short(a), short(b)) for a, b, _, _ in lock_edges))
    else:
        ctx.ok('EFFECT-LOCK', 1)

    # ------------------------------------------------------------------ 5. purity
    impure = sorted(set((short(f['path']), c) for f in mir['fns'] for c in f['calls'] if IMPURE.match(c)))
    if impure:
        ctx.violation('EFFECT-PURE', 'EFFECT:impure:%s' % impure[0][0], '%s calls %s: the answer depends on the environment, not on the arguments' % impure[0], {'sites': impure[:10]})
    else:
        ctx.ok('EFFECT-PURE', mir['n_calls'], {'call_sites_scanned': mir['n_calls']})
    hsites = sorted(set(short(f['path']) for f in mir['fns'] for c in f['calls'] if HASH_ITER.search(c) and not f['path'].startswith('<')))
    HASH_OK = {'lunar::LunarYear::get_leap_month': 'returns the column containing the year; order-insensitive because no year occurs in two columns (TABLES:LEAP_MONTH_YEAR:unique)'}
    extra = [h for h in hsites if h not in HASH_OK]
    if extra:
        ctx.violation('EFFECT-PURE', 'EFFECT:hash-order:%s' % extra[0], '%s iterates a HashMap/HashSet (RandomState: order differs per process); its result may depend on iteration order' % extra[0])
    else:
        # discharge the one allowed site through the table fact
        from rules import c03
        tbl = c03.leap_table(ctx.interp())
        seen = {}
        dup = None
        for m, yl in tbl.items():
            for y in yl:
                if y in seen:
                    dup = (y, seen[y], m)
                seen[y] = m
        if dup:
            ctx.violation('EFFECT-PURE', 'EFFECT:hash-order:lunar::LunarYear::get_leap_month', 'year %d is listed under leap months %d and %d: get_leap_month returns whichever column the hash map yields first' % dup)
        else:
            ctx.ok('EFFECT-PURE', len(seen), {'hash_iteration_sites': hsites, 'discharged_by': 'no year in two columns (%d leap years)' % len(seen)})
        # ... and the reader itself is evaluated under several iteration orders of the map: its answer for every year must not depend on the order
        # (std's RandomState gives every process its own order)
        def order_invariance():
            from rlib import pmap
            res = []
            for perm in ('as built', 'reversed', 'rotated'):
                Ih = ctx.interp(fuel=10 ** 9)
                raw = Ih.static('LEAP_MONTH_YEAR', 'src/tyme/lunar.rs')
                items = list(raw.items())
                if perm == 'reversed':
                    items = items[::-1]
                elif perm == 'rotated':
                    items = items[5:] + items[:5]
                key = [k for k in Ih.static_cache if k[1] == 'LEAP_MONTH_YEAR'][0]
                Ih.static_cache[key] = type(raw)(items)
                th = T(Ih)
                res.append(pmap(lambda y: py(th.m(Ih.call('LunarYear::from_year', [y]), 'get_leap_month')), list(range(-1, 10000))))
            for i, y in enumerate(range(-1, 10000)):
                if not (res[0][i] == res[1][i] == res[2][i]):
                    return 'LunarYear::get_leap_month(%d) is %s / %s / %s under three iteration orders of the leap-month map: the answer differs from process to process' % (y, res[0][i], res[1][i], res[2][i])
            return None
        ctx.guard('EFFECT-PURE', 'EFFECT:hash-order:lunar::LunarYear::get_leap_month:evaluated', order_invariance, 3 * 10001, {'orders': 3, 'years': 10001})

    # every blocking acquisition must go through one of the idioms whose poisoned case is understood: recover the same guard
    # (unwrap_or_else(|e| e.into_inner())) or panic (unwrap / expect, judged above).  A function that takes the lock result apart by hand
    # can answer differently once a refused request has poisoned the mutex.
    OK_ACQ = re.compile(r'::(unwrap_or_else|unwrap|expect|into_inner)$')
    for f in mir['fns']:
        if '{closure' in f['path']:
            continue
        locks = [x for c_ in f['calls'] for x in expand(c_) if re.search(r'(Mutex::<[^>]*>::lock|RwLock::<[^>]*>::(read|write))$', x)]
        if not locks:
            continue
        good = [g for g in f['guards'] if OK_ACQ.search(g['def_call'])]
        if len(good) < len(locks):
            ctx.violation('EFFECT-LOCK', 'EFFECT:poison-branch:%s' % short(f['path']), '%s acquires a lock but does not obtain its guard through unwrap_or_else(|e| e.into_inner()) / unwrap / expect: '
                          'the poisoned case follows a different code path, so a refused request can change later answers' % short(f['path']), {'locks': locks, 'guards': [g['def_call'] for g in f['guards']]})
        else:
            ctx.ok('EFFECT-LOCK', len(locks), {'site': short(f['path']), 'acquisition': [g['def_call'].split('::')[-1] for g in good]})

    # non-blocking acquisition makes an answer depend on what other threads hold at that moment
    # (a function that falls back to the blocking acquisition of the same primitive when the attempt fails computes the same answer either way and is not reported)
    def _blocking(f):
        return any(re.search(r'::(lock|read|write)$', x.split('<')[0].rstrip(':')) or re.search(r'Mutex::<[^>]*>::lock\b|RwLock::<[^>]*>::(read|write)\b', x) for c_ in f['calls'] for x in expand(c_))
    tries = sorted(set((short(f['path']), x) for f in mir['fns'] for c_ in f['calls'] for x in expand(c_) if re.search(r'::(try_lock|try_read|try_write)\b', x) and not _blocking(f)))
    if tries:
        ctx.violation('EFFECT-LOCK', 'EFFECT:try-lock:%s' % tries[0][0], '%s acquires shared state with %s: whether it succeeds depends on the other threads (and on poisoning), so the answer of a query '
                      'is no longer a function of its arguments' % (tries[0][0], tries[0][1].split('::')[-1]), {'all': tries})
    else:
        ctx.ok('EFFECT-LOCK', 1, {'non_blocking_acquisitions': 0})

    # ------------------------------------------------------------------ 6. per-value memo cells
    from rules import shared as _shared
    _shared.memo_cells(ctx)       # construction / copying / foreign writes of memo cells (the same rule every date-level property includes)
    cell_types = [n for n, s in p.structs.items() if any('RefCell' in ty or 'Cell<' in ty for _, ty in s['fields'])]
    for ty in cell_types:
        cells = [f for f, fty in p.structs[ty]['fields'] if 'Cell' in fty]
        # PartialEq / Display must not read the cells
        for tr, fnsd in p.trait_impls.get(ty, {}).items():
            for fname, fn in fnsd.items():
                if tr.startswith('PartialEq') or tr in ('Display', 'Eq'):
                    hit = []

                    def v2(n):
                        if n.get('k') == 'field' and n['name'] in cells:
                            hit.append(n.get('ln'))
                    walk(fn.body, v2)
                    if hit:
                        ctx.violation('EFFECT-CELL', 'EFFECT:%s:%s-reads-cell' % (ty, fname), '%s::%s reads a memo cell: equality / display of equal values would depend on earlier queries' % (ty, fname))

    if ctx.tier == 'thorough':
        import witness
        witness.run(ctx, {'LunarDayNotSync': 'LunarDay is not Sync (RefCell memo cells cannot be shared across threads)', 'LunarHourNotSync': 'LunarHour is not Sync',
                          'CachePrivate': 'the month memo is private to the crate', 'ProvidersPrivate': 'the strategy boxes are private to the crate (no external writer)'})
    ctx.assumptions.append('OS scheduling is outside the argument and not needed once the effect rules hold; std::sync::Mutex and RefCell behave as documented')
    ctx.assumptions.append('dyn calls are expanded to every impl of the trait method inside the crate; user-installed providers are outside the statement (queries only)')
    ctx.not_decided.append('nothing structural is left; the memo evaluation covers %d of the 240,024 keys (quick tier: every year -1..1309 plus modern and range-end years; thorough tier: all)' % len(keys))
    return ('whole-crate effect analysis on MIR (statics inventory, who-may-touch, guard live ranges vs panic-capable callees, poison tolerance, re-entrancy, lock order, purity, hash iteration) '
            'plus a memo-transparency evaluation of LunarMonth::from_ym with a stub constructor over %d keys and syntactic rules for the per-value RefCell memo cells' % len(keys))
