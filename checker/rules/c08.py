# -*- coding: utf-8 -*-
"""C08 — year pillar turns at Lichun, month pillar at each Jie, by the Five-Tigers rule.

Decided: the switching *structure* for every position of (day | instant) relative to Lichun, the Jie terms
and the lunar new year, in both views, plus the Five-Tigers table and the sexagenary-month carry.
The term days/instants themselves are scenario inputs (numeric layer replaced, see calmodel.py).
"""
from rlib import T, table, py, fn_site, Bottom, Unanalysable, pmap
from pete import SV, RInt
from calmodel import CalModel, typical_terms, synthetic_months
import calendar_oracle as CAL
import ganzhi as G

Y = 2000


def month_pillar(year_pillar_idx, k):
    """k-th month after 寅 of the pillar-year"""
    ystem = G.STEMS[year_pillar_idx % 10]
    s0 = G.STEMS.index(G.FIVE_TIGERS[ystem])
    return G.STEMS[(s0 + k) % 10] + G.BRANCHES[(2 + k) % 12]


def oracle_day(terms, y, n):
    """(year pillar, month pillar) of civil day n (JDN) in civil year y, day-level rule"""
    lichun = terms[(y, 3)][0]
    py_idx = (y - 4) % 60 if n >= lichun else (y - 5) % 60
    # latest Jie (odd index) whose day <= n
    best = None
    for (ty, ti), (tn, ts) in terms.items():
        if ti % 2 == 1 and tn <= n and (best is None or tn > best[0]):
            best = (tn, ty, ti)
    tn, ty, ti = best
    k = ((ti - 3) // 2) % 12
    return G.sixty(py_idx), month_pillar(py_idx, k)


def _rs(ts):
    """a term starts at its instant rounded to the second"""
    return int(ts + 0.5)


def oracle_time(terms, y, n, sec):
    lichun = (terms[(y, 3)][0], _rs(terms[(y, 3)][1]))
    py_idx = (y - 4) % 60 if (n, sec) >= lichun else (y - 5) % 60
    best = None
    for (ty, ti), (tn, ts) in terms.items():
        if ti % 2 == 1 and (tn, _rs(ts)) <= (n, sec) and (best is None or (tn, _rs(ts)) > best[0]):
            best = ((tn, _rs(ts)), ty, ti)
    _, ty, ti = best
    k = ((ti - 3) // 2) % 12
    return G.sixty(py_idx), month_pillar(py_idx, k)


def jie_days_of_year(tm, y):
    return set(tn for (ty, ti), (tn, ts) in tm.items() if ti % 2 == 1 and CAL.from_jdn(tn)[0] == y)


def run(ctx):
    ctx.exhaustive = False
    ctx.exhaustive_note = 'complete over every day of a scenario year (9 placements) and all critical instants; not over all real dates'
    from rules import shared
    ctx.include('effect_inventory', shared.effect_inventory)   # no new process-wide mutable state (MIR statics inventory)
    ctx.include('jd_tables', shared.jd_tables)           # civil date <-> day number and Julian date -> clock (term instants become days / instants through them)
    ctx.include('month_records', shared.month_records)   # leap table, solstice anchor, month memo, memo cells (shared, cached per source hash)
    I = ctx.interp(fuel=30000000)
    t = T(I)
    p = ctx.prog
    R = 'PETE-TABLE'
    ctx.rule(R, 'finite table vs oracle')
    ctx.rule('PETE-SCENARIO', 'real switching code evaluated on scenario calendars (numeric layer replaced by oracles) for every day / critical instant of a year')
    ctx.rule('CARRY', 'sexagenary-month stepping: year carry is a floor carry wherever the receiving constructor accepts the year')

    # 1. Five Tigers: first month of each of the 60 year pillars, both copies
    def first_month(i):
        year = 4 + i
        return t.name(t.m(t.m(SV('SixtyCycleYear', {'year': RInt(year, 'isize')}), 'get_first_month'), 'get_sixty_cycle'))
    table(ctx, R, 'SixtyCycleYear::get_first_month', range(60), first_month, lambda i: month_pillar(i, 0), u'五虎遁: 寅 month stem from the year stem', G.sixty, fn_site(p, 'SixtyCycleYear::get_first_month'))

    def lm_pillar(x):
        i, k = x
        lm = SV('LunarMonth', {'year': SV('LunarYear', {'year': RInt(4 + i, 'isize')}), 'month': RInt(k + 1, 'usize'), 'leap': False, 'day_count': RInt(30, 'usize'),
                               'index_in_year': RInt(k, 'usize'), 'first_julian_day': SV('JulianDay', {'day': 0.0})})
        return t.name(t.m(lm, 'get_sixty_cycle'))
    table(ctx, R, 'LunarMonth::get_sixty_cycle', [(i, k) for i in range(60) for k in range(12)], lm_pillar, lambda x: month_pillar(x[0], x[1]),
          'lunar-month pillar: Five Tigers + position in year (non-leap years)', lambda x: u'%s年 第%d月' % (G.sixty(x[0]), x[1] + 1), fn_site(p, 'LunarMonth::get_sixty_cycle'))

    def scm_months(i):
        yv = SV('SixtyCycleYear', {'year': RInt(4 + i, 'isize')})
        ms = t.m(yv, 'get_months')
        return [t.name(t.m(m, 'get_sixty_cycle')) for m in ms], [py(t.m(m, 'get_index_in_year')) for m in ms], [py(t.m(t.m(m, 'get_sixty_cycle_year'), 'get_year')) for m in ms]
    table(ctx, R, 'SixtyCycleYear::get_months', range(60), scm_months, lambda i: ([month_pillar(i, k) for k in range(12)], list(range(12)), [4 + i] * 12),
          'the twelve sexagenary months of a year: pillars, index in year, same year', G.sixty, fn_site(p, 'SixtyCycleYear::get_months'))

    # 2. sexagenary month stepping incl. carry across years (year 0 / -1 are accepted by SixtyCycleYear)
    def scm_next(x):
        year, k, n = x
        m = I.call('SixtyCycleMonth::from_index', [year, k])
        r = t.m(m, 'next', n)
        return (py(t.m(t.m(r, 'get_sixty_cycle_year'), 'get_year')), py(t.m(r, 'get_index_in_year')), t.name(t.m(r, 'get_sixty_cycle')))

    def scm_next_orc(x):
        year, k, n = x
        tot = year * 12 + k + n
        yy, kk = tot // 12, tot % 12
        return (yy, kk, month_pillar((yy - 4) % 60, kk))
    dom = [(year, k, n) for year in (0, 1, 2, 1984, 9998) for k in (0, 5, 11) for n in (-25, -13, -12, -11, -1, 0, 1, 11, 12, 13, 25)
           if -1 <= (year * 12 + k + n) // 12 <= 9999]
    table(ctx, 'CARRY', 'CARRY:SixtyCycleMonth::next', dom, scm_next, scm_next_orc, 'stepping a sexagenary month by n moves exactly n months, carrying years by floor (also across year 0)',
          lambda x: 'year=%d index=%d n=%d' % x, fn_site(p, 'SixtyCycleMonth::next'))

    # 3. day view over every day of civil year Y, for several positions of the lunar new year relative to Lichun
    lichun = CAL.jdn(Y, 2, 4)
    terms = typical_terms([Y - 1, Y, Y + 1, Y + 2])
    scen = []
    for ny_off in (-14, -1, 0, 1, 14):
        scen.append(('newyear=lichun%+d' % ny_off, terms, synthetic_months(Y, lichun + ny_off, 2, prev_months=3)))
    # Julian-era placement: every term ~12 days earlier in its civil month (Lichun in late January, next year's Xiaohan in late December),
    # and a far-future placement (terms 9 days later)
    for nm, sh in (('julian-era', -12), ('far-future', 9)):
        tmj = typical_terms([Y - 1, Y, Y + 1, Y + 2], shift=dict((i, sh) for i in range(24)))
        for ny_off in (-10, 3):
            scen.append(('%s newyear=lichun%+d' % (nm, ny_off), tmj, synthetic_months(Y, tmj[(Y, 3)][0] + ny_off, 2, prev_months=3)))
    days = list(range(CAL.jdn(Y, 1, 1), CAL.jdn(Y, 12, 31) + 1))

    def run_day(args):
        si, n = args
        name, tm, months = scen[si]
        cm = CalModel(I, tm, months)
        d = I.call('SixtyCycleDay::from_solar_day', [cm.solar_day_n(n)])
        return (t.name(t.m(d, 'get_year')), t.name(t.m(d, 'get_month')), t.name(t.m(d, 'get_sixty_cycle')))

    def orc_day(args):
        si, n = args
        yp, mp = oracle_day(scen[si][1], Y, n)
        return (yp, mp, G.sixty((n + 49) % 60))
    table(ctx, 'PETE-SCENARIO', 'SixtyCycleDay::from_solar_day', [(si, n) for si in range(len(scen)) for n in days], run_day, orc_day,
          'day view: year pillar turns on the Lichun day, month pillar on each Jie day (Five Tigers), for every day of a year and 5 new-year positions',
          lambda a: '%s %s' % (scen[a[0]][0], '%d-%02d-%02d' % CAL.from_jdn(a[1])), fn_site(p, 'SixtyCycleDay::from_solar_day'))

    # 4. instant view at critical instants: around every Jie instant (+-1 s), midnight/23:00 of Jie days, and noon of every 5th day
    def crit_times(tm):
        out = []
        for (ty, ti), (tn, ts) in sorted(tm.items()):
            if ti % 2 == 1 and CAL.from_jdn(tn)[0] == Y:
                for ds in (-1, 0, 1, 61, -61, 3601):
                    s2 = _rs(ts) + ds
                    if 0 <= s2 < 86400:
                        out.append((tn, s2))
                for dn in (-1, 0, 1):
                    for s2 in (0, 43200, 82800, 86399):
                        out.append((tn + dn, s2))
        for n in days[::5]:
            out.append((n, 45296))
        return sorted(set(x for x in out if CAL.from_jdn(x[0])[0] == Y))
    # Jie seconds chosen to exercise the second/minute/hour comparison levels: same minute different second etc.
    # ... with sub-second fractions on both sides of .5: a term starts at its instant ROUNDED to the second, for the year and the month pillar alike
    sec = dict((i, (i * 3607 + 1234) % 86000 + 100 + (0.4 if i % 4 in (0, 3) else 0.6)) for i in range(24))     # Lichun (3) rounds down, Jingzhe (5) rounds up, ...
    terms_t = typical_terms([Y - 1, Y, Y + 1, Y + 2], sec=sec)
    scen_t = [('newyear=lichun%+d' % o, terms_t, synthetic_months(Y, lichun + o, 2, prev_months=3)) for o in (-14, 0, 14)]
    terms_tj = typical_terms([Y - 1, Y, Y + 1, Y + 2], shift=dict((i, -12) for i in range(24)), sec=sec)
    scen_t.append(('julian-era newyear=lichun+3', terms_tj, synthetic_months(Y, terms_tj[(Y, 3)][0] + 3, 2, prev_months=3)))
    times = crit_times(terms_t)
    times_by_scen = dict((si, crit_times(sc[1])) for si, sc in enumerate(scen_t))

    def run_time(args):
        si, n, s = args
        name, tm, months = scen_t[si]
        cm = CalModel(I, tm, months)
        h = I.call('SixtyCycleHour::from_solar_time', [cm.solar_time_n(n, s)])
        return (t.name(t.m(h, 'get_year')), t.name(t.m(h, 'get_month')))

    def orc_time(args):
        si, n, s = args
        return oracle_time(scen_t[si][1], Y, n, s)
    table(ctx, 'PETE-SCENARIO', 'SixtyCycleHour::from_solar_time', [(si, n, s) for si in range(len(scen_t)) for (n, s) in times_by_scen[si]], run_time, orc_time,
          'instant view: the same rule applied at the exact term instant (critical instants around all 12 Jie of a year, 3 new-year positions)',
          lambda a: '%s %s %02d:%02d:%02d' % (scen_t[a[0]][0], '%d-%02d-%02d' % CAL.from_jdn(a[1]), a[2] // 3600, a[2] // 60 % 60, a[2] % 60), fn_site(p, 'SixtyCycleHour::from_solar_time'))

    # 4a. the eight characters of an instant carry the instant-level year and month pillars, through every shipped provider
    def ec_time(args):
        si, n, s_ = args
        name, tm, months = scen_t[si]
        cm = CalModel(I, tm, months)
        out = []
        for prov in ('DefaultEightCharProvider', 'LunarSect2EightCharProvider'):
            pv = I.call(prov + '::new', [])
            ec = I.method(pv, 'get_eight_char', t.m(cm.solar_time_n(n, s_), 'get_lunar_hour'))
            out.append((t.name(t.m(ec, 'get_year')), t.name(t.m(ec, 'get_month'))))
        return tuple(out)
    ec_dom = [(si, n, s_) for si in (0, 2) for (n, s_) in times_by_scen[si] if n in jie_days_of_year(scen_t[si][1], Y)][:120]
    table(ctx, 'PETE-SCENARIO', 'EightCharProvider:year/month-at-instant', ec_dom, ec_time, lambda a: (orc_time(a), orc_time(a)),
          'the year and month characters of an instant are those of the instant-level view (before / after the Jie instant inside a Jie day), for the default and the sect-2 provider',
          lambda a: '%s %s %02d:%02d:%02d' % (scen_t[a[0]][0], '%d-%02d-%02d' % CAL.from_jdn(a[1]), a[2] // 3600, a[2] // 60 % 60, a[2] % 60), fn_site(p, 'LunarSect2EightCharProvider::get_eight_char'))

    # 4b. stepping an instant-level value: x.next(n) must be the value of the instant n seconds later (also across a Jie instant inside one civil day)
    def hstep(args):
        n, s0, dn = args
        name, tm, months = scen_t[1]
        cm = CalModel(I, tm, months)
        h = I.call('SixtyCycleHour::from_solar_time', [cm.solar_time_n(n, s0)])
        r = t.m(h, 'next', dn)
        st = t.m(r, 'get_solar_time')
        return (t.name(t.m(r, 'get_year')), t.name(t.m(r, 'get_month')), t.name(t.m(r, 'get_day')), cm.n_of(t.m(st, 'get_solar_day')) * 86400 + py(t.m(st, 'get_hour')) * 3600 + py(t.m(st, 'get_minute')) * 60 + py(t.m(st, 'get_second')))

    def hstep_orc(args):
        n, s0, dn = args
        a = n * 86400 + s0 + dn
        n2, s2 = divmod(a, 86400)
        yp, mp = oracle_time(scen_t[1][1], CAL.from_jdn(n2)[0], n2, s2)
        dp = G.sixty((n2 + 49 + (1 if s2 >= 82800 else 0)) % 60)
        return (yp, mp, dp, a)
    hs = []
    for (ty, ti), (tn, ts) in sorted(terms_t.items()):
        if ti % 2 == 1 and CAL.from_jdn(tn)[0] == Y:
            ts = _rs(ts)
            for s0 in (600, max(0, ts - 3600)):
                for dn in (ts - s0 - 1, ts - s0, ts - s0 + 1, 7200, 36000, 80000, -7200, 86400 + 100):
                    if s0 + dn >= -86400:
                        hs.append((tn, s0, dn))
    table(ctx, 'PETE-SCENARIO', 'SixtyCycleHour::next', hs, hstep, hstep_orc, 'stepping an instant-level value by n seconds gives the pillars of the instant n seconds later, also across a Jie instant within one civil day',
          lambda a: '%s +%ds then next(%d)' % ('%d-%02d-%02d' % CAL.from_jdn(a[0]), a[1], a[2]), fn_site(p, 'SixtyCycleHour::next'))

    def day_hours(n):
        name, tm, months = scen_t[1]
        cm = CalModel(I, tm, months)
        d = I.call('SixtyCycleDay::from_solar_day', [cm.solar_day_n(n)])
        out = []
        for h in t.m(d, 'get_hours'):
            out.append((t.name(t.m(h, 'get_year')), t.name(t.m(h, 'get_month'))))
        return out

    def day_hours_orc(n):
        out = []
        for k in range(12):
            a = (n - 1) * 86400 + 82800 + k * 7200
            n2, s2 = divmod(a, 86400)
            out.append(oracle_time(scen_t[1][1], CAL.from_jdn(n2)[0], n2, s2))
        return out
    table(ctx, 'PETE-SCENARIO', 'SixtyCycleDay::get_hours:pillars', sorted(jie_days_of_year(terms_t, Y))[:12], day_hours, day_hours_orc,
          'the 12 double-hours listed for a day containing a Jie carry the year/month pillars of their own start instants', lambda n: '%d-%02d-%02d' % CAL.from_jdn(n), fn_site(p, 'SixtyCycleDay::get_hours'))

    # 5. the two views agree on every day that contains no Jie (noon sample of every day of the year)
    jie_days = set(tn for (ty, ti), (tn, ts) in terms_t.items() if ti % 2 == 1)

    def agree(n):
        name, tm, months = scen_t[1]
        cm = CalModel(I, tm, months)
        d = I.call('SixtyCycleDay::from_solar_day', [cm.solar_day_n(n)])
        h = I.call('SixtyCycleHour::from_solar_time', [cm.solar_time_n(n, 43200)])
        return (t.name(t.m(d, 'get_year')), t.name(t.m(d, 'get_month'))) == (t.name(t.m(h, 'get_year')), t.name(t.m(h, 'get_month')))
    table(ctx, 'PETE-SCENARIO', 'day-view==instant-view', [n for n in days if n not in jie_days], agree, lambda n: True,
          'day-level and instant-level views agree on days containing no Jie', lambda n: '%d-%02d-%02d' % CAL.from_jdn(n))

    # 5b. the lunar new year may fall in DECEMBER (the library's own month numbering does so in its AD 9-23 window): the days after it still belong
    # to the civil year's sexagenary year (they are after this year's Lichun and before the next one)
    dec_months = synthetic_months(Y, CAL.jdn(Y, 1, 3), 2, leap={Y + 1: 6}, prev_months=3, auto_leap=False)

    def dec_view(n):
        cm = CalModel(I, terms_t, dec_months)
        d = I.call('SixtyCycleDay::from_solar_day', [cm.solar_day_n(n)])
        h = I.call('SixtyCycleHour::from_solar_time', [cm.solar_time_n(n, 45296)])
        return ((t.name(t.m(d, 'get_year')), t.name(t.m(d, 'get_month'))), (t.name(t.m(h, 'get_year')), t.name(t.m(h, 'get_month'))))
    dec_days = [n for n in range(CAL.jdn(Y, 12, 10), CAL.jdn(Y, 12, 31) + 1) if n not in jie_days]
    table(ctx, 'PETE-SCENARIO', 'year-pillar:lunar-new-year-in-December', dec_days, dec_view, lambda n: (oracle_day(terms_t, Y, n), oracle_time(terms_t, Y, n, 45296)),
          'with the lunar new year on December 22 the last days of the civil year keep the civil year\'s sexagenary year in both views', lambda n: '%d-%02d-%02d' % CAL.from_jdn(n), fn_site(p, 'SixtyCycleDay::from_solar_day'))

    # 6. the lunar-date twins of the pillar getters (kept for compatibility) must answer what the sexagenary views answer for the same day / instant
    def twins(x):
        n, sec = x
        name, tm, months = scen_t[1]
        cm = CalModel(I, tm, months)
        d = I.call('SixtyCycleDay::from_solar_day', [cm.solar_day_n(n)])
        ld = t.m(cm.solar_day_n(n), 'get_lunar_day')
        h = I.call('SixtyCycleHour::from_solar_time', [cm.solar_time_n(n, sec)])
        lh = t.m(cm.solar_time_n(n, sec), 'get_lunar_hour')
        bad = []
        if (t.name(t.m(ld, 'get_year_sixty_cycle')), t.name(t.m(ld, 'get_month_sixty_cycle'))) != (t.name(t.m(d, 'get_year')), t.name(t.m(d, 'get_month'))):
            bad.append('LunarDay year/month pillar getters differ from the sexagenary-day view')
        if (t.name(t.m(lh, 'get_year_sixty_cycle')), t.name(t.m(lh, 'get_month_sixty_cycle')), t.name(t.m(lh, 'get_day_sixty_cycle'))) != (t.name(t.m(h, 'get_year')), t.name(t.m(h, 'get_month')), t.name(t.m(h, 'get_day'))):
            bad.append('LunarHour year/month/day pillar getters differ from the sexagenary-hour view')
        return tuple(bad)
    _cov = lambda n: any(r['first'] <= n and n + 1 < r['first'] + r['count'] for r in scen_t[1][2])
    tw_days = [n for n in sorted(jie_days) if _cov(n) and n in days][:4] + [n for n in days if n not in jie_days and _cov(n)][::45]
    table(ctx, 'PETE-SCENARIO', 'lunar-twins==sexagenary-views', [(n, sec) for n in tw_days for sec in (0, 43200, 84600)], twins, lambda x: (),
          'LunarDay / LunarHour pillar getters answer exactly what the sexagenary-day / -hour views answer (Jie days, ordinary days, 23:30)', lambda x: '%d-%02d-%02d' % CAL.from_jdn(x[0]) + ' +%ds' % x[1],
          fn_site(p, 'LunarHour::get_year_sixty_cycle'))

    # ---- the two ends of the supported range (first days of 0001, last days of 9999, last lunar year)
    from rules import range_end as _re
    _Ie = ctx.interp(fuel=50000000)
    _re.c08_edge(ctx, _Ie, T(_Ie))

    ctx.assumptions.append('numeric layer replaced by oracles: civil date <-> day number (C01), term days/instants (C05/C06), lunar month table (C02/C03)')
    ctx.not_decided.append('on which civil day / instant each Jie and Lichun actually falls (numeric)')
    return ('Five-Tigers tables over all 60 year pillars; the real year/month switching code of both views evaluated by PETE on scenario calendars '
            'for every day of a year and all critical instants around the 12 Jie, against the Lichun/Jie rule; sexagenary-month carry incl. year 0')
