# -*- coding: utf-8 -*-
"""C16 — child limit and fortunes follow from birth instant, gender and the next Jie.

The real child-limit code (ChildLimit::from_solar_time, every shipped provider, AbstractChildLimitProvider::next)
and the fortune getters are evaluated by PETE on a scenario calendar (numeric layer replaced by oracles)
for a dense set of birth instants and both genders, against the statement's exchange rates and plain
calendar addition.
"""
from rlib import T, table, py, fn_site, Bottom, Unanalysable
from pete import SV, RInt, EV
from calmodel import CalModel, typical_terms, synthetic_months
import calendar_oracle as CAL
import ganzhi as G
from rules.c08 import oracle_time
from rules.c09 import hour_pillar
from rules.c12 import abs_sec, from_abs

Y = 2000


def add_calendar(birth, years, months, days, hours, minutes, seconds=0):
    """birth + calendar years and months (same day-of-month label, overflowing into following months by their lengths), then days, hours, minutes"""
    y, m, d, h, mi, s = birth
    tot = (y + years) * 12 + (m - 1) + months
    yy, mm = tot // 12, tot % 12 + 1
    if CAL.exists(yy, mm, d):
        base = CAL.jdn(yy, mm, d)
    else:
        base = CAL.jdn(yy, mm, 1) + (d - 1)  # label beyond the month's end runs on into the next months
    a = base * 86400 + h * 3600 + mi * 60 + s
    a += days * 86400 + hours * 3600 + minutes * 60 + seconds
    return from_abs(a)


def run(ctx):
    ctx.exhaustive = False
    ctx.exhaustive_note = '~1,700 sampled (birth, gender) points incl. every exchange-rate boundary'
    from rules import shared
    ctx.include('effect_inventory', shared.effect_inventory)   # no new process-wide mutable state (MIR statics inventory)
    ctx.include('month_records', shared.month_records)   # leap table, solstice anchor, month memo, memo cells (shared, cached per source hash)
    ctx.include('jd_tables', shared.jd_tables)           # civil date <-> day number per (year, month) (shared, cached per source hash)
    I = ctx.interp(fuel=80000000)
    t = T(I)
    p = ctx.prog
    R = 'PETE-SCENARIO'
    ctx.rule(R, 'real child-limit / fortune code evaluated on a scenario calendar for dense birth instants x gender vs the statement\'s rates and calendar addition')
    lichun = CAL.jdn(Y, 2, 4)
    sec = dict((i, (i * 5407 + 4321) % 86000 + 100) for i in range(24))
    years = range(Y - 2, Y + 14)
    terms = typical_terms(years, sec=sec)
    months = synthetic_months(Y - 1, CAL.jdn(Y - 1, 2, 10), 14, prev_months=3)
    jies = sorted((tn, ts) for (ty, ti), (tn, ts) in terms.items() if ti % 2 == 1)

    def tup(v):
        return CalModel.ymd_of(v.f['day']) + (v.f['hour'].v, v.f['minute'].v, v.f['second'].v)

    def gender(man):
        return EV('Gender', 'MAN' if man else 'WOMAN')

    # births: a stride through two months plus instants hugging Jie instants and the extreme carries
    births = []
    a0 = abs_sec((Y, 5, 30, 0, 0, 0))
    for k in range(0, 420):
        births.append(from_abs(a0 + k * (3 * 3600 + 7 * 60 + 11)))
    for (tn, ts) in jies:
        if CAL.from_jdn(tn)[0] == Y:
            for ds in (-7200, -61, -1, 0, 1, 61, 7200):
                births.append(from_abs(tn * 86400 + ts + ds))
            births.append(from_abs(tn * 86400 + 5))           # same civil day, before the Jie instant
            births.append(from_abs(tn * 86400 + 86399))
    # exchange-rate boundaries: the distance to the governing Jie is exactly k units (and one second either side) for every unit of the statement
    j0 = [j for j in jies if CAL.from_jdn(j[0])[0] == Y][5]
    jabs = j0[0] * 86400 + j0[1]
    for unit in (3 * 86400, 86400 // 4, 3600 // 5, 60 // 2):
        for k in (1, 2, 3, 9, 10):
            for ds in (-1, 0, 1, 59, 61):
                for sign in (-1, 1):
                    a = jabs + sign * (k * unit + ds)
                    if abs(a - jabs) < 29 * 86400:
                        births.append(from_abs(a))
    births += [(Y, 12, 31, 23, 59, 59), (Y, 1, 1, 0, 0, 0), (Y, 2, 29, 23, 30, 0), (Y + 1, 1, 31, 22, 59, 45)]
    births = sorted(set(b for b in births if CAL.exists(b[0], b[1], b[2])))

    def limit(x):
        b, man = x
        cm = CalModel(I, terms, months)
        cl = I.call('ChildLimit::from_solar_time', [cm.solar_time(*b), gender(man)])
        return (t.m(cl, 'is_forward'), (py(t.m(cl, 'get_year_count')), py(t.m(cl, 'get_month_count')), py(t.m(cl, 'get_day_count')), py(t.m(cl, 'get_hour_count')), py(t.m(cl, 'get_minute_count'))),
                tup(t.m(cl, 'get_start_time')), tup(t.m(cl, 'get_end_time')))

    def limit_orc(x):
        b, man = x
        n, s = CAL.jdn(*b[:3]), b[3] * 3600 + b[4] * 60 + b[5]
        yp, _ = oracle_time(terms, b[0], n, s)
        yang = G.STEM_YANG[yp[0]]
        forward = (yang and man) or ((not yang) and (not man))
        if forward:
            jie = min(j for j in jies if j > (n, s))
        else:
            jie = max(j for j in jies if j <= (n, s))
        secs = abs((jie[0] * 86400 + jie[1]) - (n * 86400 + s))
        yy, r = divmod(secs, 3 * 86400)        # 3 days = 1 year
        mo, r = divmod(r, 86400 // 4)          # 1 day = 4 months
        dd, r = divmod(r, 3600 // 5)           # 1 hour = 5 days
        hh, r = divmod(r, 60 // 2)             # 1 minute = 2 hours
        mi = r * 2                             # 1 second = 2 minutes
        return (forward, (yy, mo, dd, hh, mi), b, add_calendar(b, yy, mo, dd, hh, mi))
    dom = [(b, man) for b in births for man in (True, False)]
    table(ctx, R, 'ChildLimit::from_solar_time', dom, limit, limit_orc,
          'forward iff Yang-year man or Yin-year woman; governing Jie by instant; 3 days=1y, 1 day=4mo, 1h=5d, 1min=2h, 1s=2min; end = birth + that many calendar units',
          lambda x: '%s %s' % (x[0], 'man' if x[1] else 'woman'), fn_site(p, 'ChildLimit::from_solar_time'))

    # ---- the calendar-addition routine itself, on carries that chain (second->minute->hour->day->month->year)
    adds = []
    for b in ((Y, 1, 31, 23, 59, 59), (Y, 12, 31, 23, 30, 30), (Y, 2, 28, 12, 0, 0), (Y, 6, 15, 8, 16, 20), (Y + 1, 3, 20, 8, 16, 20)):
        for a in ((0, 0, 0, 0, 0, 0), (0, 0, 0, 0, 0, 1), (0, 0, 0, 0, 1, 0), (0, 0, 0, 1, 0, 0), (0, 0, 1, 0, 0, 0), (0, 1, 0, 0, 0, 0), (1, 0, 0, 0, 0, 0),
                  (4, 9, 28, 15, 44, 0), (9, 11, 29, 23, 58, 0), (0, 0, 0, 15, 44, 40), (0, 11, 30, 23, 59, 59), (2, 3, 45, 30, 70, 70)):
            adds.append((b, a))

    def do_add(x):
        b, a = x
        cm = CalModel(I, terms, months)
        prov = I.call('AbstractChildLimitProvider::new', [])
        info = I.method(prov, 'next', cm.solar_time(*b), *a)
        return tup(t.m(info, 'get_end_time'))
    table(ctx, R, 'AbstractChildLimitProvider::next', adds, do_add, lambda x: add_calendar(x[0], *x[1]), 'calendar addition with chained carries (second->minute->hour->day->month->year)',
          str, fn_site(p, 'AbstractChildLimitProvider::next'))

    # ---- direction when the start of spring falls late (February 6-13, as in the first decades AD and in the far future) or early (late January, Julian era):
    # the year pillar - hence the direction - changes at the Lichun INSTANT, wherever in the civil calendar it sits
    def dir_shift(x):
        shift, b, man = x
        tm_ = typical_terms(years, shift=dict((i, shift) for i in range(24)), sec=sec)
        cm = CalModel(I, tm_, months)
        cl = I.call('ChildLimit::from_solar_time', [cm.solar_time(*b), gender(man)])
        return (t.m(cl, 'is_forward'), t.name(t.m(t.m(cl, 'get_eight_char'), 'get_year')))

    def dir_shift_orc(x):
        shift, b, man = x
        tm_ = typical_terms(years, shift=dict((i, shift) for i in range(24)), sec=sec)
        n, s_ = CAL.jdn(*b[:3]), b[3] * 3600 + b[4] * 60 + b[5]
        yp, _ = oracle_time(tm_, b[0], n, s_)
        yang = G.STEM_YANG[yp[0]]
        return ((yang and man) or ((not yang) and (not man)), yp)
    ddom = []
    for shift in (2, 3, 9, -12):
        ln, ls = typical_terms(years, shift=dict((i, shift) for i in range(24)), sec=sec)[(Y, 3)]
        for (dn, s_) in ((0, 5), (0, int(ls) - 1), (0, int(ls) + 1), (0, 86000), (-1, 43200), (1, 43200)):
            if any(r['first'] <= ln + dn - 1 and ln + dn + 1 < r['first'] + r['count'] for r in months):
                y_, m_, d_ = CAL.from_jdn(ln + dn)
                for man in (True, False):
                    ddom.append((shift, (y_, m_, d_, s_ // 3600, s_ // 60 % 60, s_ % 60), man))
    table(ctx, R, 'ChildLimit:direction-at-shifted-Lichun', ddom, dir_shift, dir_shift_orc,
          'the year pillar and the direction of luck follow the Lichun instant also when it falls on February 6-13 or in late January (births just before / after it on the Lichun day, the day before and after)',
          str, fn_site(p, 'SixtyCycleHour::from_solar_time'))

    # ---- the same routine when the result falls in October 1582 (21 days labelled 1-4, 15-31)
    gap = [((1582, 9, 25, 12, 0, 0), (0, 0, 15, 0, 0, 0)), ((1582, 10, 20, 12, 0, 0), (0, 0, 3, 0, 0, 0)), ((1582, 10, 2, 12, 0, 0), (0, 0, 5, 0, 0, 0)), ((1581, 10, 20, 1, 0, 0), (1, 0, 0, 0, 0, 0))]
    table(ctx, R, 'DOM:AbstractChildLimitProvider::next:count-arith', gap, do_add, lambda x: add_calendar(x[0], *x[1]),
          'calendar addition ending in October 1582: day-of-month arithmetic by month counts is not day arithmetic there', str, fn_site(p, 'AbstractChildLimitProvider::next'))

    # ---- the other shipped strategies share the routine and their own exchange rates (minutes-based)
    def strat(x):
        name, b, man = x
        cm = CalModel(I, terms, months)
        n, s = CAL.jdn(*b[:3]), b[3] * 3600 + b[4] * 60 + b[5]
        jie = min(j for j in jies if j > (n, s))
        ti = [k for k, v in terms.items() if v == jie][0]
        prov = I.call('%s::new' % name, [])
        info = I.method(prov, 'get_info', cm.solar_time(*b), cm.term_sv(ti[0], ti[1]))
        return ((py(t.m(info, 'get_year_count')), py(t.m(info, 'get_month_count')), py(t.m(info, 'get_day_count')), py(t.m(info, 'get_hour_count')), py(t.m(info, 'get_minute_count'))), tup(t.m(info, 'get_end_time')))

    def strat_orc(x):
        name, b, man = x
        n, s = CAL.jdn(*b[:3]), b[3] * 3600 + b[4] * 60 + b[5]
        jie = min(j for j in jies if j > (n, s))
        mins = ((jie[0] * 86400 + jie[1]) - (n * 86400 + s)) // 60
        yy, r = divmod(mins, 3 * 1440)
        mo, r = divmod(r, 1440 // 4)
        dd, r = divmod(r, 60 // 5)
        hh = r * 2 if name == 'LunarSect2ChildLimitProvider' else 0
        return ((yy, mo, dd, hh, 0), add_calendar(b, yy, mo, dd, hh, 0))
    table(ctx, R, 'China95/LunarSect2 providers', [(nm, b, True) for nm in ('China95ChildLimitProvider', 'LunarSect2ChildLimitProvider') for b in births[::9]], strat, strat_orc,
          'minute-based strategies: 3 days=1y, 1 day=4mo, 12 min=1d (+ 1 min = 2h in sect 2), same addition routine', str, fn_site(p, 'China95ChildLimitProvider::get_info'))

    # ---- the day / double-hour strategy ("3 days = 1 year, 1 day = 4 months, 1 double-hour = 10 days", as its doc comment states)
    def slot(h):
        return 11 if h == 23 else (h + 1) // 2       # double-hour of the civil day, monotone within the day (23:xx stays in the day's last slot)

    def sect1(x):
        b, fwd = x
        cm = CalModel(I, terms, months)
        n, s_ = CAL.jdn(*b[:3]), b[3] * 3600 + b[4] * 60 + b[5]
        jie = min(j for j in jies if j > (n, s_)) if fwd else max(j for j in jies if j <= (n, s_))
        ti = [k for k, v in terms.items() if v == jie][0]
        prov = I.call('LunarSect1ChildLimitProvider::new', [])
        info = I.method(prov, 'get_info', cm.solar_time(*b), cm.term_sv(ti[0], ti[1]))
        return ((py(t.m(info, 'get_year_count')), py(t.m(info, 'get_month_count')), py(t.m(info, 'get_day_count')), py(t.m(info, 'get_hour_count')), py(t.m(info, 'get_minute_count'))), tup(t.m(info, 'get_end_time')))

    def sect1_orc(x):
        b, fwd = x
        n, s_ = CAL.jdn(*b[:3]), b[3] * 3600 + b[4] * 60 + b[5]
        jie = min(j for j in jies if j > (n, s_)) if fwd else max(j for j in jies if j <= (n, s_))
        js = int(jie[1] + 0.5)
        if (n, s_) > (jie[0], js):
            (n0_, h0), (n1_, h1) = (jie[0], js // 3600), (n, b[3])
        else:
            (n0_, h0), (n1_, h1) = (n, b[3]), (jie[0], js // 3600)
        dd, hd = n1_ - n0_, slot(h1) - slot(h0)
        if hd < 0:
            hd += 12
            dd -= 1
        mo = dd * 4 + (hd * 10) // 30
        days_ = (hd * 10) % 30
        yy, mo = divmod(mo, 12)
        return ((yy, mo, days_, 0, 0), add_calendar(b, yy, mo, days_, 0, 0))
    s1_births = [b for b in births[::11]] + [from_abs(abs_sec((Y, 6, 10 + k, 23, 30, 0))) for k in range(0, 12, 3)] + [from_abs(abs_sec((Y, 6, 11, hh_, 15, 0))) for hh_ in (0, 1, 22, 23)]
    table(ctx, R, 'LunarSect1 provider', [(b, f_) for b in s1_births for f_ in (True, False)], sect1, sect1_orc,
          'day / double-hour strategy: whole days x 4 months + whole double-hours x 10 days between the two instants (23:xx counts as the last double-hour of its civil day), same addition routine; never before birth',
          str, fn_site(p, 'LunarSect1ChildLimitProvider::get_info'))

    # ---- fortunes: affine in index, direction by forward
    def fort(x):
        b, man, idx = x
        cm = CalModel(I, terms, months)
        cl = I.call('ChildLimit::from_solar_time', [cm.solar_time(*b), gender(man)])
        fwd = t.m(cl, 'is_forward')
        ec = t.m(cl, 'get_eight_char')
        mp, hp = t.idx(t.m(ec, 'get_month')), t.idx(t.m(ec, 'get_hour'))
        ey, sy = py(t.m(t.m(cl, 'get_end_time'), 'get_year')), py(t.m(t.m(cl, 'get_start_time'), 'get_year'))
        df = t.m(t.m(cl, 'get_start_decade_fortune'), 'next', idx)
        f = t.m(t.m(cl, 'get_start_fortune'), 'next', idx)
        sgn = 1 if fwd else -1
        exp = ((mp + sgn * (idx + 1)) % 60, ey - sy + 1 + 10 * idx, ey - sy + 1 + 10 * idx + 9, ey + 10 * idx, (hp + sgn * (ey - sy + 1 + idx)) % 60, ey - sy + 1 + idx, ey + idx)
        got = (t.idx(t.m(df, 'get_sixty_cycle')), py(t.m(df, 'get_start_age')), py(t.m(df, 'get_end_age')), py(t.m(t.m(df, 'get_start_sixty_cycle_year'), 'get_year')),
               t.idx(t.m(f, 'get_sixty_cycle')), py(t.m(f, 'get_age')), py(t.m(t.m(f, 'get_sixty_cycle_year'), 'get_year')))
        return got == exp
    table(ctx, R, 'DecadeFortune/Fortune', [(b, man, i) for b in births[::40] for man in (True, False) for i in (0, 1, 2, 7)], fort, lambda x: True,
          'decade fortunes step the month pillar by +-1 per decade with start ages 10 apart; yearly fortunes step the hour pillar by +-1 per year from the year the limit ends',
          str, fn_site(p, 'DecadeFortune::get_sixty_cycle'))

    # ---- the remaining fortune accessors: siblings of the getters above must tell the same story
    def fort2(x):
        b, man, idx = x
        cm = CalModel(I, terms, months)
        cl = I.call('ChildLimit::from_solar_time', [cm.solar_time(*b), gender(man)])
        fwd = t.m(cl, 'is_forward')
        ec = t.m(cl, 'get_eight_char')
        mp, hp = t.idx(t.m(ec, 'get_month')), t.idx(t.m(ec, 'get_hour'))
        ey, sy = py(t.m(t.m(cl, 'get_end_time'), 'get_year')), py(t.m(t.m(cl, 'get_start_time'), 'get_year'))
        ly = py(t.m(t.m(t.m(cl, 'get_start_time'), 'get_lunar_hour'), 'get_year'))     # lunar year of birth
        sgn = 1 if fwd else -1
        df = t.m(t.m(cl, 'get_start_decade_fortune'), 'next', idx)
        f = t.m(t.m(cl, 'get_start_fortune'), 'next', idx)
        pre = t.m(cl, 'get_decade_fortune')
        sf = t.m(df, 'get_start_fortune')
        got = {
            'decade index': py(t.m(df, 'get_index')), 'decade name': t.name(df), 'decade end year': py(t.m(t.m(df, 'get_end_sixty_cycle_year'), 'get_year')),
            'decade start lunar year': py(t.m(t.m(df, 'get_start_lunar_year'), 'get_year')), 'decade end lunar year': py(t.m(t.m(df, 'get_end_lunar_year'), 'get_year')),
            'decade first yearly fortune age': py(t.m(sf, 'get_age')), 'decade first yearly fortune index': py(t.m(sf, 'get_index')),
            'pre-limit decade pillar': t.idx(t.m(pre, 'get_sixty_cycle')), 'pre-limit decade index': py(t.m(pre, 'get_index')),
            'limit start age': py(t.m(cl, 'get_start_age')), 'limit end age': py(t.m(cl, 'get_end_age')), 'limit end lunar year': py(t.m(t.m(cl, 'get_end_lunar_year'), 'get_year')),
            'limit gender': t.name(t.m(cl, 'get_gender')) if False else I.values_equal(t.m(cl, 'get_gender'), gender(man)),
            'yearly name': t.name(f), 'yearly lunar year': py(t.m(t.m(f, 'get_lunar_year'), 'get_year')), 'yearly index': py(t.m(f, 'get_index')),
        }
        exp = {
            'decade index': idx, 'decade name': G.sixty((mp + sgn * (idx + 1)) % 60), 'decade end year': ey + 10 * idx + 9,
            'decade start lunar year': ly + (ey - sy) + 10 * idx, 'decade end lunar year': ly + (ey - sy) + 10 * idx + 9,
            'decade first yearly fortune age': ey - sy + 1 + 10 * idx, 'decade first yearly fortune index': 10 * idx,
            'pre-limit decade pillar': mp, 'pre-limit decade index': -1,
            'limit start age': 1, 'limit end age': max(ey - sy, 1), 'limit end lunar year': ly + (ey - sy),
            'limit gender': True,
            'yearly name': G.sixty((hp + sgn * (ey - sy + 1 + idx)) % 60), 'yearly lunar year': ly + (ey - sy) + idx, 'yearly index': idx,
        }
        bad = sorted(k for k in exp if got[k] != exp[k])
        return tuple('%s: got %s want %s' % (k, got[k], exp[k]) for k in bad)
    table(ctx, R, 'DecadeFortune/Fortune accessors', [(b, man, i) for b in births[::60] for man in (True, False) for i in (0, 1, 5)], fort2, lambda x: (),
          'sibling accessors agree with the decade / yearly fortune rule: index, name, end year = start + 9, lunar-year twins offset by the birth lunar/civil year difference, '
          'a decade\'s first yearly fortune has the decade\'s start age, the pre-limit decade carries the month pillar itself, limit ages 1 .. max(1, years elapsed)',
          str, fn_site(p, 'DecadeFortune::get_start_fortune'))

    ctx.assumptions.append('numeric layer replaced by oracles: civil date <-> day number (C01), term instants (C05/C06), lunar month table (C02/C03)')
    ctx.not_decided.append('births whose limit ends inside October 1582: the addition routine does day-of-month arithmetic by month counts there (see known_findings.txt / DESIGN §5)')
    return ('the child-limit pipeline (direction, governing Jie, exchange rates, calendar addition with chained carries, three strategies) and the fortune getters '
            'evaluated from the syntax tree on a scenario calendar for ~900 (birth, gender) points')
