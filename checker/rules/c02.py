# -*- coding: utf-8 -*-
"""C02 — solar <-> lunar conversion is a bijection that preserves order (structural clauses).

Decided: the lunar comparators as decision tables (incl. a month and its leap twin); guards of the lunar
value constructors; the two conversion directions are mutually inverse and order preserving for EVERY day
and every lunar date of scenario calendars whose month records tile (so the conversion LOGIC is decided;
the month records themselves are C03/C04/C05); the solstice-month anchoring of the records (model rule
shared with C03/C04).
"""
from rlib import T, table, py, fn_site, Bottom, Unanalysable
from pete import SV, RInt, CellV, NONE
from calmodel import CalModel, typical_terms, synthetic_months
import calendar_oracle as CAL


def run(ctx):
    ctx.exhaustive = False
    ctx.exhaustive_note = 'complete over the stated comparator / guard domains and over every day of the scenario years; not over all real dates'
    from rules import shared
    ctx.include('effect_inventory', shared.effect_inventory)   # no new process-wide mutable state (MIR statics inventory)
    ctx.include('month_records', shared.month_records)   # leap table, solstice anchor, month memo, memo cells (shared, cached per source hash)
    ctx.include('jd_tables', shared.jd_tables)           # civil date <-> day number per (year, month) (shared, cached per source hash)
    p = ctx.prog
    I = ctx.interp(fuel=200000000)
    t = T(I)
    ctx.rule('CMP', 'lunar comparators == chronological order of (year, month number, leap flag, day[, clock]) over all order types incl. leap twins')
    ctx.rule('PETE-TABLE', 'constructor guards')
    ctx.rule('PETE-SCENARIO', 'both conversion directions evaluated (real search loop) for every day / every lunar date of tiling scenario calendars')
    Y = 2000
    months = synthetic_months(Y - 1, CAL.jdn(Y - 1, 2, 16), 4, leap={Y: 4, Y + 1: 11}, prev_months=3, auto_leap=False)
    terms = typical_terms(range(Y - 2, Y + 5))
    cm = CalModel(I, terms, months)

    # ---- comparators over order types: years {Y, Y+1} x months {3, 4, leap 4, 5} x days {1, 2}
    keys = [(y, m, d) for y in (Y, Y + 1) for m in ((3, 4, -4, 5) if y == Y else (4, 11, -11)) for d in (1, 2)]

    def chrono(k):
        y, m, d = k
        return (y, abs(m), 1 if m < 0 else 0, d)

    def cmp_day(ab):
        a = I.call('LunarDay::from_ymd', list(ab[0]))
        b = I.call('LunarDay::from_ymd', list(ab[1]))
        return (t.m(a, 'is_before', b), t.m(a, 'is_after', b), I.values_equal(a, b))
    table(ctx, 'CMP', 'CMP:LunarDay', [(a, b) for a in keys for b in keys], cmp_day, lambda ab: (chrono(ab[0]) < chrono(ab[1]), chrono(ab[0]) > chrono(ab[1]), ab[0] == ab[1]),
          'lunar before/after coincide with chronological order, a leap month coming after its regular twin', str, fn_site(p, 'LunarDay::is_before'))
    hk = [(Y, m, 1, h, mi, s) for m in (4, -4) for h in (5, 6) for mi in (7, 8) for s in (9, 10)]

    def cmp_hour(ab):
        a = I.call('LunarHour::from_ymd_hms', list(ab[0]))
        b = I.call('LunarHour::from_ymd_hms', list(ab[1]))
        return (t.m(a, 'is_before', b), t.m(a, 'is_after', b), I.values_equal(a, b))

    def ch(k):
        return chrono(k[:3]) + k[3:]
    table(ctx, 'CMP', 'CMP:LunarHour', [(a, b) for a in hk for b in hk], cmp_hour, lambda ab: (ch(ab[0]) < ch(ab[1]), ch(ab[0]) > ch(ab[1]), ab[0] == ab[1]),
          'lunar-hour before/after: day order first, then hour, minute, second', str, fn_site(p, 'LunarHour::is_before'))

    # ---- guards
    def acc_day(x):
        y, m, d = x
        try:
            return I.call('LunarDay::new', [y, m, d]).ok
        except Bottom:
            return 'panic'
    recs = dict(((r['year'], r['month']), r) for r in months)
    table(ctx, 'PETE-TABLE', 'LunarDay::new', [(Y, m, d) for m in (1, 2, 4, -4, 12) for d in (0, 1, 29, 30, 31)], acc_day, lambda x: 1 <= x[2] <= recs[(x[0], x[1])]['count'],
          'a lunar day is accepted iff 1 <= day <= that month\'s length', str, fn_site(p, 'LunarDay::new'))
    table(ctx, 'PETE-TABLE', 'LunarYear::new', [-3, -2, -1, 0, 1, 9999, 10000], lambda y: I.call('LunarYear::new', [y]).ok, lambda y: -1 <= y <= 9999, 'lunar year accepted iff -1..9999', str, fn_site(p, 'LunarYear::new'))
    table(ctx, 'PETE-TABLE', 'LunarHour::new', [(h, mi, s) for h in (0, 23, 24) for mi in (0, 59, 60) for s in (0, 59, 60)], lambda x: I.call('LunarHour::new', [Y, 1, 1, x[0], x[1], x[2]]).ok,
          lambda x: x[0] <= 23 and x[1] <= 59 and x[2] <= 59, 'lunar hour accepted iff hour<=23, minute<=59, second<=59', str, fn_site(p, 'LunarHour::new'))

    # ---- conversion both ways with the REAL civil->lunar search loop (the scenario override of get_lunar_day is removed)
    del I.overrides['SolarDay::get_lunar_day']
    inner = [r for r in months if r['year'] in (Y, Y + 1)]
    n_lo, n_hi = inner[0]['first'], inner[-1]['first'] + inner[-1]['count'] - 1

    def s2l(n):
        ld = t.m(cm.solar_day_n(n), 'get_lunar_day')
        key = (py(t.m(ld, 'get_year')), py(t.m(ld, 'get_month')), py(t.m(ld, 'get_day')))
        back = cm.n_of(t.m(ld, 'get_solar_day'))
        return (key, back)

    def s2l_orc(n):
        for r in months:
            if r['first'] <= n < r['first'] + r['count']:
                return ((r['year'], r['month'], n - r['first'] + 1), n)
    table(ctx, 'PETE-SCENARIO', 'SolarDay::get_lunar_day', range(n_lo, n_hi + 1), s2l, s2l_orc,
          'civil -> lunar -> civil is the identity and consecutive civil days map to consecutive lunar days (every day of two scenario years incl. leap months)',
          lambda n: '%d-%02d-%02d' % CAL.from_jdn(n), fn_site(p, 'SolarDay::get_lunar_day'))

    # the same on calendars whose lunar year starts a lunation early or late (the library's own month numbering does so in its
    # AD 9-23 reform window: month m then begins about a month before civil month m; late = far-future drift)
    def s2l_shifted(x):
        which, n = x
        ms = {'early': early, 'late': late, 'leap12': leap12}[which]
        cme = CalModel(I, terms, ms)
        del I.overrides['SolarDay::get_lunar_day']
        ld = t.m(cme.solar_day_n(n), 'get_lunar_day')
        return ((py(t.m(ld, 'get_year')), py(t.m(ld, 'get_month')), py(t.m(ld, 'get_day'))), cme.n_of(t.m(ld, 'get_solar_day')))

    def s2l_shifted_orc(x):
        which, n = x
        for r in {'early': early, 'late': late, 'leap12': leap12}[which]:
            if r['first'] <= n < r['first'] + r['count']:
                return ((r['year'], r['month'], n - r['first'] + 1), n)
    early = synthetic_months(Y - 1, CAL.jdn(Y - 1, 1, 6), 3, leap={Y: 7}, prev_months=3, auto_leap=False)
    late = synthetic_months(Y - 1, CAL.jdn(Y - 1, 3, 2), 3, leap={Y: 2}, prev_months=4, auto_leap=False)
    leap12 = synthetic_months(Y - 1, CAL.jdn(Y - 1, 1, 24), 2, leap={Y - 1: 12}, prev_months=3, auto_leap=False)     # previous lunar year ends with a leap 12th month
    sdom = [('early', n) for n in range(CAL.jdn(Y, 1, 1), CAL.jdn(Y, 12, 31) + 1)] + [('late', n) for n in range(CAL.jdn(Y, 1, 1), CAL.jdn(Y, 12, 31) + 1)] \
        + [('leap12', n) for n in range(CAL.jdn(Y - 1, 11, 25), CAL.jdn(Y, 3, 20))]
    table(ctx, 'PETE-SCENARIO', 'SolarDay::get_lunar_day:shifted-new-year', sdom, s2l_shifted, s2l_shifted_orc,
          'civil -> lunar -> civil is the identity also when lunar month m begins about a month before (or after) civil month m',
          lambda x: '%s scenario, %d-%02d-%02d' % ((x[0],) + CAL.from_jdn(x[1])), fn_site(p, 'SolarDay::get_lunar_day'))
    CalModel(I, terms, months)
    del I.overrides['SolarDay::get_lunar_day']

    def l2s(x):
        k, d = x
        r = inner[k]
        ld = I.call('LunarDay::from_ymd', [r['year'], r['month'], d])
        sd = t.m(ld, 'get_solar_day')
        back = t.m(sd, 'get_lunar_day')
        return (cm.n_of(sd), (py(t.m(back, 'get_year')), py(t.m(back, 'get_month')), py(t.m(back, 'get_day'))))
    table(ctx, 'PETE-SCENARIO', 'LunarDay::get_solar_day', [(k, d) for k in range(len(inner)) for d in range(1, inner[k]['count'] + 1)], l2s,
          lambda x: (inner[x[0]]['first'] + x[1] - 1, (inner[x[0]]['year'], inner[x[0]]['month'], x[1])), 'lunar -> civil -> lunar is the identity for every valid lunar date',
          lambda x: '%s-%s-%d' % (inner[x[0]]['year'], inner[x[0]]['month'], x[1]), fn_site(p, 'LunarDay::get_solar_day'))

    # ---- stepping a lunar day follows the civil day line: x.next(n) is the lunar date of the civil day n days later, and it is ordered after x exactly when n > 0
    def ld_next(x):
        k, d, n = x
        r = inner[k]
        ld = I.call('LunarDay::from_ymd', [r['year'], r['month'], d])
        nx = t.m(ld, 'next', n)
        return ((py(t.m(nx, 'get_year')), py(t.m(nx, 'get_month')), py(t.m(nx, 'get_day'))), t.m(ld, 'is_before', nx), t.m(ld, 'is_after', nx))

    def ld_next_orc(x):
        k, d, n = x
        return (s2l_orc(inner[k]['first'] + d - 1 + n)[0], n > 0, n < 0)
    ndom = [(k, d, n) for k in range(len(inner)) for d in sorted(set([1, 2, inner[k]['count'] - 1, inner[k]['count']])) for n in (-31, -30, -29, -1, 1, 29, 30, 31)
            if n_lo <= inner[k]['first'] + d - 1 + n <= n_hi]
    table(ctx, 'PETE-SCENARIO', 'LunarDay::next', ndom, ld_next, ld_next_orc,
          'a lunar day stepped by n is the lunar date of the civil day n days later (day+1 in the same month or day 1 of the following month, into and out of leap months) and is ordered accordingly',
          lambda x: '%s-%s-%d next(%d)' % (inner[x[0]]['year'], inner[x[0]]['month'], x[1], x[2]), fn_site(p, 'LunarDay::next'))

    # ---- the same conversions at the level of instants: an instant's lunar hour sits in the same (possibly leap) month as its day and converts back to the instant
    def t2l(x):
        n, sec = x
        st = cm.solar_time_n(n, sec)
        lh = t.m(st, 'get_lunar_hour')
        ld = t.m(lh, 'get_lunar_day')
        key = (py(t.m(ld, 'get_year')), py(t.m(ld, 'get_month')), py(t.m(ld, 'get_day')), py(t.m(lh, 'get_hour')), py(t.m(lh, 'get_minute')), py(t.m(lh, 'get_second')))
        back = t.m(lh, 'get_solar_time')
        return (key, (cm.n_of(back.f['day']), py(back.f['hour']) * 3600 + py(back.f['minute']) * 60 + py(back.f['second'])))

    def t2l_orc(x):
        n, sec = x
        (y, m, d), _ = s2l_orc(n)
        return ((y, m, d, sec // 3600, sec // 60 % 60, sec % 60), (n, sec))
    leap_recs = [r for r in inner if r['month'] < 0]
    tdom = sorted(set([(r['first'] + k, s) for r in leap_recs for k in (0, 1, r['count'] - 1) for s in (0, 45015, 86399)]
                      + [(r['first'] - 1, 86399) for r in leap_recs] + [(r['first'] + r['count'], 0) for r in leap_recs]
                      + [(inner[1]['first'] + 3, 3600), (inner[-2]['first'], 84600)]))
    table(ctx, 'PETE-SCENARIO', 'SolarTime::get_lunar_hour', tdom, t2l, t2l_orc,
          'instant -> lunar hour -> instant is the identity and the lunar hour lies in the lunar day of its civil day (inside, just before and just after a leap month)',
          lambda x: '%d-%02d-%02d +%ds' % (CAL.from_jdn(x[0]) + (x[1],)), fn_site(p, 'SolarTime::get_lunar_hour'))

    # ---- do the REAL month records tile across lunar years? (table + month-1 offset logic, no series values)
    from rules import c03 as _c03
    try:
        _c03.chain_rule(ctx, _c03.leap_table(ctx.interp()))
    except (Unanalysable, Bottom) as u:
        ctx.unanalysable('TILE-CHAIN', 'TILE:LunarMonth::new:offsets', str(u))

    ctx.assumptions.append('scenario month records tile by construction; whether the REAL records tile is C03 (numeric)')
    ctx.not_decided.append('bijection on the real calendar needs the real month records to abut: across lunar years that is decided up to the 12-or-13 bound by TILE-CHAIN (known findings at 8/9, 23/24, 24/25); '
                           'the break at 239/240 (0240-01-01 -> lunar 239 leap-11 day 20 -> 0240-01-31) passes that bound and is inside a reform window: not decided, DESIGN 10.3')
    return ('lunar comparators as decision tables incl. leap twins; constructor guards; both conversion directions evaluated with the real search loop for every day and every lunar date '
            'of tiling scenario calendars; solstice-month anchoring of the month records against a uniform-lunation model')
