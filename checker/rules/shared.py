# -*- coding: utf-8 -*-
"""Rule bundles shared by several properties (computed once per source hash through Ctx.include).

  jd_tables      civil date <-> day number: additivity lemma + both Julian-day formulas per (year, month)
  month_records  the lunar month records every date-level property rests on: stored leap table (order, uniqueness,
                 intercalation rhythm in years and in lunations), solstice-month anchoring (model), transparency of the
                 month memo (injective key, writer/reader agreement, refusals store nothing) and the memo-cell constructor rule
"""
import re
from rlib import T, table, py, fn_site, Bottom, Unanalysable
from pete import SV, RInt, Res, CellV
from prog import walk


def jd_tables(ctx):
    from rules.c01 import jd_month_tables
    jd_month_tables(ctx, [(y, m) for y in range(1, 10000) for m in range(1, 13)])
    from rules.c12 import jd_clock_rules
    jd_clock_rules(ctx)       # Julian date -> clock: seconds rounding and the 60 -> minute -> hour -> next-day carries (term instants become days through them)


def memo_transparent(ctx, full=False):
    """LunarMonth::from_ym evaluated with a stub constructor over a key set closed under the known collision families"""
    p = ctx.prog
    ctx.rule('EFFECT-MEMO', 'memo transparency: injective key, value = f(args), writer/reader field agreement, refusals store nothing')
    I = ctx.interp(fuel=800000000)
    t = T(I)
    built = []

    def stub_new(I_, r, a):
        y, m = py(a[0]), py(a[1])
        if m == 0 or abs(m) > 12 or y < -1 or y > 9999:
            return Res(u'illegal', False)
        built.append((y, m))
        return Res(SV('LunarMonth', {'year': SV('LunarYear', {'year': RInt(y, 'isize')}), 'month': RInt(abs(m), 'usize'), 'leap': m < 0,
                                     'day_count': RInt(29 + (y + m) % 2, 'usize'), 'index_in_year': RInt((abs(m) * 7 + (3 if m < 0 else 0)) % 13, 'usize'),
                                     'first_julian_day': SV('JulianDay', {'day': float(y * 400 + m * 30) + 0.5})}), True)
    I.overrides['LunarMonth::new'] = stub_new
    if full == 'all':
        ys = list(range(-1, 10000))
    elif full:
        core = list(range(-1, 131)) + list(range(199, 206)) + list(range(1990, 2031)) + [9998, 9999]
        ys = set(core)
        for y in range(0, 131):
            for d in range(10):
                if y * 10 + d <= 9999:
                    ys.add(y * 10 + d)
        ys = sorted(ys)
    else:
        # light: digit-concatenation families ((Y, 11|12) ~ (10Y+1, 1|2) etc.) and affine families (adjacent years) around small, modern and range-end years
        ys = set(list(range(-1, 31)) + list(range(197, 207)) + list(range(2015, 2026)) + [9998, 9999])
        for y in list(ys):
            if 0 <= y <= 30 or 197 <= y <= 206:
                for d in range(10):
                    ys.add(y * 10 + d)
        ys = sorted(y for y in ys if -1 <= y <= 9999)
    keys = [(y, m) for y in ys for m in list(range(1, 13)) + list(range(-12, 0))]

    def sig(v):
        return (py(t.m(v, 'get_year')), py(t.m(v, 'get_month_with_leap')), py(t.m(v, 'get_day_count')), py(t.m(v, 'get_index_in_year')), t.m(t.m(v, 'get_first_julian_day'), 'get_day'))

    def cache_len():
        c = I.static('LUNAR_MONTH_CACHE', 'src/tyme/lunar.rs') if 'LUNAR_MONTH_CACHE' in p.static_defs else None
        if c is None:
            return None
        return len(c.v if isinstance(c, CellV) else c)

    def memo():
        first = {}
        for (y, m) in keys:
            s = sig(I.call('LunarMonth::from_ym', [y, m]))
            first[(y, m)] = s
            if s[0] != y or s[1] != m:
                return ('LunarMonth::from_ym(%d, %d) returned the month (%d, %d): the memo key is not injective (an earlier request was stored under the same key); every lunar query after that sequence is wrong' % (y, m, s[0], s[1]), {})
        n_built = len(built)
        for (y, m) in keys[::3]:
            s = sig(I.call('LunarMonth::from_ym', [y, m]))
            if s != first[(y, m)]:
                return ('second request for (%d, %d) answers %s, the first answered %s: memo writer and reader disagree on the stored fields' % (y, m, s, first[(y, m)]), {})
        before = cache_len()
        for bad_req in ((2023, 13), (2023, 0), (10000, 1)):
            try:
                I.call('LunarMonth::from_ym', list(bad_req))
                return 'LunarMonth::from_ym%s was not refused' % (bad_req,)
            except Bottom:
                pass
        if before is not None and cache_len() != before:
            return 'a refused request left an entry in the memo'
        return None
    ctx.guard('EFFECT-MEMO', 'EFFECT:LunarMonth::from_ym:memo-transparent', memo, len(keys) + len(keys) // 3 + 3, {'keys': len(keys), 'site': fn_site(p, 'LunarMonth::from_ym')})
    return len(keys)


def _fresh_local(fn, segs):
    """True when the local `segs` is bound (by its only `let`) to the result of a constructor call (`new` / `from_*`): a fresh value has empty memo cells"""
    if len(segs) != 1:
        return False
    inits = []

    def v(n):
        if n.get('k') == 'local':
            pat = n.get('pat') or {}
            if pat.get('k') == 'ptype':
                pat = pat.get('pat') or {}
            if pat.get('k') == 'pident' and pat.get('name') == segs[0]:
                inits.append(n.get('init'))
    walk(fn.body, v)
    if len(inits) != 1 or inits[0] is None:
        return False
    e = inits[0]
    while e.get('k') in ('mcall',) and e['m'] in ('unwrap', 'expect'):
        e = e['recv']
    if e.get('k') == 'call' and e['f'].get('k') == 'path':
        last = e['f']['segs'][-1]
        return last == 'new' or last.startswith('from_')
    return False


def memo_cells(ctx):
    """values with RefCell memo fields are only built with empty cells inside their constructor; one writer per cell"""
    p = ctx.prog
    ctx.rule('EFFECT-CELL', 'per-value memo cells: values with RefCell memo fields are only built with empty cells in their constructor; each cell written in one getter')
    cell_types = [n for n, s in p.structs.items() if any('RefCell' in ty or 'Cell<' in ty for _, ty in s['fields'])]
    ctx.floor('EFFECT-CELL', 'types with RefCell memo fields', len(cell_types), 2)
    all_cells = {}
    for ty in cell_types:
        for f, fty in p.structs[ty]['fields']:
            if 'Cell' in fty:
                all_cells[f] = ty
    foreign = []
    for fn in p.all_fns:
        if fn.body is None:
            continue

        def vf(n, fn=fn):
            if n.get('k') == 'mcall' and n['m'] in ('replace', 'set', 'borrow_mut', 'swap', 'replace_with', 'take') and n['recv'].get('k') == 'field' and n['recv']['name'] in all_cells:
                owner = all_cells[n['recv']['name']]
                inner = n['recv']['e']
                direct_self = inner.get('k') == 'path' and inner['segs'] == ['self']
                if fn.owner != owner or not direct_self:
                    foreign.append('%s writes the memo cell %s.%s of another value (%s:%s): a later query on that value answers from a cell it did not fill itself' % (fn.qname, owner, n['recv']['name'], fn.file, n.get('ln')))
        walk(fn.body, vf)
    if foreign:
        ctx.violation('EFFECT-CELL', 'EFFECT:foreign-cell-write:%s' % foreign[0].split(' ')[0], foreign[0], {'all': foreign})
    else:
        ctx.ok('EFFECT-CELL', len(all_cells), {'cells': sorted(all_cells)})
    for ty in cell_types:
        cells = [f for f, fty in p.structs[ty]['fields'] if 'Cell' in fty]
        bad = []
        writers = {}
        for fn in p.all_fns:
            if fn.body is None:
                continue

            def v(n, fn=fn):
                if n.get('k') == 'struct':
                    name = n['path']['segs'][-1]
                    if name == 'Self':
                        name = fn.owner
                    if name == ty:
                        if fn.qname != '%s::new' % ty:
                            bad.append('%s builds a %s outside its constructor (%s:%s): its memo cells may carry answers computed for another value' % (fn.qname, ty, fn.file, n.get('ln')))
                        if n.get('rest') is not None:
                            bad.append('%s builds a %s with struct-update syntax: memo cells are copied from another value (%s:%s)' % (fn.qname, ty, fn.file, n.get('ln')))
                        for fname, fe in n['fields']:
                            if fname in cells:
                                ok = fe.get('k') == 'call' and fe['f'].get('k') == 'path' and fe['f']['segs'][-2:] == ['RefCell', 'new'] and fe['args'] and fe['args'][0].get('k') == 'path' and fe['args'][0]['segs'] == ['None']
                                if not ok:
                                    bad.append('%s initialises memo cell %s.%s with something other than RefCell::new(None) (%s:%s)' % (fn.qname, ty, fname, fn.file, n.get('ln')))
                if n.get('k') == 'mcall' and n['m'] in ('replace', 'set', 'borrow_mut', 'swap', 'replace_with') and n['recv'].get('k') == 'field' and n['recv']['name'] in cells and fn.owner == ty:
                    writers.setdefault(n['recv']['name'], set()).add(fn.qname)
                if n.get('k') == 'assign' and n['l'].get('k') == 'field' and fn.owner == ty and n['l']['e'].get('k') != 'path':
                    pass
                # a clone of self whose plain fields are then overwritten keeps stale cells
                if n.get('k') == 'assign' and n['l'].get('k') == 'field' and n['l']['name'] not in cells and n['l']['e'].get('k') == 'path' and n['l']['e']['segs'] != ['self'] and fn.owner == ty \
                        and not _fresh_local(fn, n['l']['e']['segs']):
                    bad.append('%s overwrites field %s of another %s value in place (%s:%s): its memo cells keep answers computed for the old field value' % (fn.qname, n['l']['name'], ty, fn.file, n.get('ln')))
            walk(fn.body, v)
        multi = [(c, sorted(w)) for c, w in writers.items() if len(w) > 1]
        # a memo cell may only be looked at by the getter that fills it (and the constructor): any other reader answers differently
        # depending on whether that getter happened to run before
        for fn in p.all_fns:
            if fn.body is None or fn.owner != ty or fn.qname == '%s::new' % ty:
                continue

            def vr(n, fn=fn):
                if n.get('k') == 'field' and n['name'] in cells and n['e'].get('k') == 'path' and n['e']['segs'] == ['self']:
                    if fn.qname not in writers.get(n['name'], set()):
                        bad.append('%s reads the memo cell %s.%s although it is not the getter that fills it (%s:%s): its answer depends on which other queries ran before' % (fn.qname, ty, n['name'], fn.file, n.get('ln')))
            walk(fn.body, vr)
        if bad:
            ctx.violation('EFFECT-CELL', 'EFFECT:%s:cells' % ty, bad[0], {'all': bad})
        elif multi:
            ctx.violation('EFFECT-CELL', 'EFFECT:%s:cell-writers' % ty, 'memo cell %s.%s is written by several functions %s' % (ty, multi[0][0], multi[0][1]))
        else:
            ctx.ok('EFFECT-CELL', len(cells), {'type': ty, 'cells': cells, 'writers': dict((c, sorted(w)) for c, w in writers.items())})
        for tr, fnsd in p.trait_impls.get(ty, {}).items():
            for fname, fn in fnsd.items():
                if tr.startswith('PartialEq') or tr in ('Display', 'Eq'):
                    hit = []

                    def v2(n):
                        if n.get('k') == 'field' and n['name'] in cells:
                            hit.append(n.get('ln'))
                    walk(fn.body, v2)
                    if hit:
                        ctx.violation('EFFECT-CELL', 'EFFECT:%s:%s-reads-cell' % (ty, fname), '%s::%s reads a memo cell: equality / display of equal values would depend on earlier queries' % (ty, fname))


def month_records(ctx):
    from rules import c03
    tbl = c03.table_rules(ctx, ctx.interp(), 'shared')
    if tbl is not None:
        c03.anchor_rule(ctx, tbl)
    c03.length_rule(ctx)
    c05_solver(ctx)
    memo_transparent(ctx, full=False)
    memo_cells(ctx)
    # the scenario calendars replace SolarTerm::from_index / new by a stand-in, so the real constructors' year / index arithmetic travels with the bundle
    from rules import c06
    c06.term_ctor_rules(ctx)


def c05_solver(ctx):
    """the month records come out of the new-moon / term day solvers: their structure rules travel with the bundle"""
    from rules import c05
    c05.run(ctx, only_solver=True)


def solver_structure(ctx):
    """day-level solvers: midnight fall-back to the precise solver, full series in the last Newton step (see rules/c05.py)"""
    from rules import c05
    c05.run(ctx, only_solver=True)


def effect_inventory(ctx):
    """no process-wide mutable state beyond the frozen list (any new cache / counter makes answers history dependent)"""
    from rules import c10
    c10.inventory(ctx)
