# -*- coding: utf-8 -*-
"""C18 — almanac lookup tables are total and well-formed for every pillar pair.

The readers (God::get_day_gods, Taboo::get_day_*/get_hour_*) are evaluated from the syntax tree on the
literal packed tables for the whole finite key space (12 x 60 each); raw decoded indices are observed at
the `from_index` call so a silently wrapping out-of-range index is seen.
"""
from rlib import T, table, py, fn_site, Bottom, Unanalysable
import almanac as A
import ganzhi as G


def run(ctx):
    from rules import shared
    ctx.include('effect_inventory', shared.effect_inventory)   # no new process-wide mutable state (MIR statics inventory)
    ctx.include('month_records', shared.month_records)   # the hour / day views sit on lunar days: month memo and per-value memo cells (shared, cached per source hash)
    I = ctx.interp(fuel=20000000)
    t = T(I)
    p = ctx.prog
    ctx.rule('TABLES-DECODE', 'reader evaluated on the packed literal for every key: decodes without panic, every raw index < name-list length')
    ctx.rule('TABLES-NONEMPTY', 'every (month branch, day pillar) has at least one spirit')
    ctx.rule('TABLES-DISJOINT', 'recommended and avoided activities are disjoint for every key')
    ctx.rule('PETE-TABLE', 'finite table vs oracle')
    ctx.rule('TABLES-SHAPE', 'literal table shape: 12 strings, >= 60 records each')

    n_gods = len(t.names('GOD_NAMES'))
    n_taboo = len(t.names('TABOO_NAMES'))
    ctx.floor('TABLES-DECODE', 'GOD_NAMES', n_gods, 100)
    ctx.floor('TABLES-DECODE', 'TABOO_NAMES', n_taboo, 100)

    raw = []

    def spy(q):
        def f(interp, recv, args):
            raw.append(py(args[0]))
            del interp.overrides[q]
            try:
                return interp.call(q, args)
            finally:
                interp.overrides[q] = f
        return f
    I.overrides['God::from_index'] = spy('God::from_index')
    I.overrides['Taboo::from_index'] = spy('Taboo::from_index')

    # month pillar with branch b: any pillar index i with i % 12 == b; use i = b (stem parity is irrelevant to the readers)
    def pillar_with_branch(b):
        return t.sixty(b)

    for tbl in ('DAY_GODS', 'DAY_TABOO', 'HOUR_TABOO'):
        def shape(tbl=tbl):
            v = t.names(tbl)
            if len(v) != 12:
                return '%s has %d strings, expected 12 (one per branch)' % (tbl, len(v))
            for i, s in enumerate(v):
                if s.count(';') < 59:
                    return '%s[%d] has fewer than 60 records' % (tbl, i)
        ctx.guard('TABLES-SHAPE', 'TABLES:%s:shape' % tbl, shape, 12, {'table': tbl})

    # ---- day spirits
    bad_decode, empty, oob = [], [], []
    pts = 0
    seen_keys = 0
    try:
        for mb in range(12):
            for d in range(60):
                pts += 1
                del raw[:]
                try:
                    gods = I.call('God::get_day_gods', [pillar_with_branch(mb), t.sixty(d)])
                except Bottom as b:
                    bad_decode.append((G.BRANCHES[mb], G.sixty(d), b.reason))
                    continue
                if len(gods) == 0:
                    empty.append((G.BRANCHES[mb], G.sixty(d)))
                for r in raw:
                    if r < 0 or r >= n_gods:
                        oob.append((G.BRANCHES[mb], G.sixty(d), r))
        key = 'TABLES:God::get_day_gods'
        if bad_decode:
            ctx.violation('TABLES-DECODE', key + ':decode', 'day spirits fail to decode for %d of %d keys; first: month branch %s day %s: %s' % (len(bad_decode), pts, bad_decode[0][0], bad_decode[0][1], bad_decode[0][2]), {'bad': bad_decode[:10]}, pts)
        elif oob:
            ctx.violation('TABLES-DECODE', key + ':index-range', 'decoded spirit index outside GOD_NAMES (len %d) for %d keys; first: %s' % (n_gods, len(oob), oob[0]), {'bad': oob[:10]}, pts)
        else:
            ctx.ok('TABLES-DECODE', pts, {'reader': 'God::get_day_gods', 'keys': pts, 'site': fn_site(p, 'God::get_day_gods')})
        if empty:
            ctx.violation('TABLES-NONEMPTY', key + ':empty', 'no spirit found for %d of %d (month branch, day pillar) pairs; first: month branch %s, day %s' % (len(empty), pts, empty[0][0], empty[0][1]), {'empty': empty[:10]}, pts)
        else:
            ctx.ok('TABLES-NONEMPTY', pts)
    except Unanalysable as u:
        ctx.unanalysable('TABLES-DECODE', 'TABLES:God::get_day_gods', str(u))

    # ---- activities (day: month branch x day pillar; hour: day pillar x hour branch)
    for kind, rec, avo, outer_is_first in (('day', 'Taboo::get_day_recommends', 'Taboo::get_day_avoids', True), ('hour', 'Taboo::get_hour_recommends', 'Taboo::get_hour_avoids', False)):
        bad, oob, overlap = [], [], []
        pts = 0
        try:
            for b in range(12):
                for d in range(60):
                    pts += 1
                    args = [pillar_with_branch(b), t.sixty(d)] if outer_is_first else [t.sixty(d), pillar_with_branch(b)]
                    res = []
                    for q in (rec, avo):
                        del raw[:]
                        try:
                            l = I.call(q, list(args))
                        except Bottom as bt:
                            bad.append((G.BRANCHES[b], G.sixty(d), q, bt.reason))
                            l = []
                        for r in raw:
                            if r < 0 or r >= n_taboo:
                                oob.append((G.BRANCHES[b], G.sixty(d), q, r))
                        res.append(set(t.name(x) for x in l))
                    both = res[0] & res[1]
                    if both:
                        overlap.append((G.BRANCHES[b], G.sixty(d), sorted(both)))
            key = 'TABLES:Taboo::%s' % kind
            if bad:
                ctx.violation('TABLES-DECODE', key + ':decode', '%s activities fail to decode for %d lookups; first: branch %s pillar %s via %s: %s' % (kind, len(bad), bad[0][0], bad[0][1], bad[0][2], bad[0][3]), {'bad': bad[:10]}, pts * 2)
            elif oob:
                ctx.violation('TABLES-DECODE', key + ':index-range', 'decoded activity index outside TABOO_NAMES (len %d); first: %s' % (n_taboo, oob[0]), {'bad': oob[:10]}, pts * 2)
            else:
                ctx.ok('TABLES-DECODE', pts * 2, {'reader': rec + ' / ' + avo, 'keys': pts})
            if overlap:
                ctx.violation('TABLES-DISJOINT', key + ':overlap', '%s activities both recommended and avoided for %d keys; first: branch %s pillar %s: %s' % (kind, len(overlap), overlap[0][0], overlap[0][1], u','.join(overlap[0][2])), {'overlap': overlap[:10]}, pts)
            else:
                ctx.ok('TABLES-DISJOINT', pts)
        except Unanalysable as u:
            ctx.unanalysable('TABLES-DECODE', 'TABLES:Taboo::%s' % kind, str(u))
    del I.overrides['God::from_index']
    del I.overrides['Taboo::from_index']

    # ---- the public day / hour views pass the right pillars to the readers (wiring): evaluated with symbolic holders
    # SixtyCycleDay::get_gods(month, day), LunarDay::get_gods ... are covered by C17's sibling checks.

    # ---- wiring: the day / hour views hand the right pillars, in the right order, to the readers
    from pete import SV, RInt, CellV, NONE, Opt, Symbolic
    ctx.rule('WIRING', 'day / hour views pass (month pillar, day pillar) resp. (day pillar, hour pillar) to the table readers, in that order, in every copy')

    def scd(mi, di):
        return SV('SixtyCycleDay', {'solar_day': Symbolic('SolarDay', 0), 'month': SV('SixtyCycleMonth', {'year': SV('SixtyCycleYear', {'year': RInt(2000, 'isize')}), 'month': t.sixty(mi)}), 'day': t.sixty(di)})

    def sch(di, hi):
        st = SV('SolarTime', {'day': Symbolic('SolarDay', 0), 'hour': RInt((hi % 12) * 2, 'usize'), 'minute': RInt(0, 'usize'), 'second': RInt(0, 'usize')})
        return SV('SixtyCycleHour', {'solar_time': st, 'day': scd(0, di), 'hour': t.sixty(hi)})

    def lunar_day(scday):
        lm = SV('LunarMonth', {'year': SV('LunarYear', {'year': RInt(2000, 'isize')}), 'month': RInt(1, 'usize'), 'leap': False, 'day_count': RInt(30, 'usize'), 'index_in_year': RInt(0, 'usize'),
                               'first_julian_day': SV('JulianDay', {'day': 2451545.0})})
        return SV('LunarDay', {'month': lm, 'day': RInt(1, 'usize'), 'solar_day': CellV(NONE, 'refcell'), 'sixty_cycle_day': CellV(Opt(scday), 'refcell')})

    def names(l):
        return [t.name(x) for x in l]

    def wire_day(x):
        mi, di = x
        d = scd(mi, di)
        ld = lunar_day(scd(mi, di))
        return (names(t.m(d, 'get_gods')), names(t.m(d, 'get_recommends')), names(t.m(d, 'get_avoids')), names(t.m(ld, 'get_gods')), names(t.m(ld, 'get_recommends')), names(t.m(ld, 'get_avoids')))

    def wire_day_orc(x):
        mi, di = x
        m, d = t.sixty(mi), t.sixty(di)
        a = (names(I.call('God::get_day_gods', [m, d])), names(I.call('Taboo::get_day_recommends', [m, d])), names(I.call('Taboo::get_day_avoids', [m, d])))
        return a + a
    # month and day pillars chosen with different branches so that a swapped argument order is visible
    table(ctx, 'WIRING', 'WIRING:day-views', [(mi, di) for mi in (2, 7, 11, 14, 35) for di in (0, 5, 13, 29, 46, 59)], wire_day, wire_day_orc,
          'SixtyCycleDay and LunarDay getters return the table entries of (their month pillar, their day pillar)', lambda x: u'月%s 日%s' % (G.sixty(x[0]), G.sixty(x[1])), fn_site(p, 'SixtyCycleDay::get_gods'))

    def lunar_hour(di, hi):
        # a lunar hour whose own day pillar is di (first_julian_day chosen accordingly) and whose memo holds the sexagenary-hour view
        n = 2451545
        while (n + 49) % 60 != di:
            n += 1
        lm = SV('LunarMonth', {'year': SV('LunarYear', {'year': RInt(2000, 'isize')}), 'month': RInt(1, 'usize'), 'leap': False, 'day_count': RInt(30, 'usize'), 'index_in_year': RInt(0, 'usize'),
                               'first_julian_day': SV('JulianDay', {'day': float(n)})})
        ld = SV('LunarDay', {'month': lm, 'day': RInt(1, 'usize'), 'solar_day': CellV(NONE, 'refcell'), 'sixty_cycle_day': CellV(NONE, 'refcell')})
        hour = (hi % 12) * 2
        hp = G.STEMS[(G.STEMS.index(G.FIVE_RATS[G.STEMS[di % 10]]) + hi % 12) % 10] + G.BRANCHES[hi % 12]
        hidx = [G.sixty(k) for k in range(60)].index(hp)
        return SV('LunarHour', {'day': ld, 'hour': RInt(hour, 'usize'), 'minute': RInt(0, 'usize'), 'second': RInt(0, 'usize'), 'solar_time': CellV(NONE, 'refcell'),
                                'sixty_cycle_hour': CellV(Opt(sch(di, hidx)), 'refcell')}), hidx

    def wire_hour(x):
        di, hb = x
        lh, hidx = lunar_hour(di, hb)
        h = sch(di, hidx)
        return (names(t.m(h, 'get_recommends')), names(t.m(h, 'get_avoids')), names(t.m(lh, 'get_recommends')), names(t.m(lh, 'get_avoids')))

    def wire_hour_orc(x):
        di, hb = x
        _, hidx = lunar_hour(di, hb)
        d, h = t.sixty(di), t.sixty(hidx)
        a = (names(I.call('Taboo::get_hour_recommends', [d, h])), names(I.call('Taboo::get_hour_avoids', [d, h])))
        return a + a
    table(ctx, 'WIRING', 'WIRING:hour-views', [(di, hb) for di in (0, 7, 13, 29, 46) for hb in (0, 3, 6, 11)], wire_hour, wire_hour_orc,
          'SixtyCycleHour and LunarHour getters return the table entries of (their day pillar, their hour pillar)', lambda x: u'日%s 时%s' % (G.sixty(x[0]), G.BRANCHES[x[1]]), fn_site(p, 'SixtyCycleHour::get_recommends'))

    # hour 23 on a scenario calendar: a FRESH lunar hour (memo empty) must use the next day's pillar, whichever getter is asked first
    from calmodel import CalModel, typical_terms, synthetic_months
    import calendar_oracle as CAL
    cmh = CalModel(I, typical_terms(range(1999, 2003)), synthetic_months(2000, CAL.jdn(2000, 2, 5), 2, prev_months=3))

    def fresh23(x):
        k, order = x
        n = CAL.jdn(2000, 3, 1) + k
        lh = t.m(cmh.solar_time_n(n, 84600), 'get_lunar_hour')
        if order == 0:
            a = names(t.m(lh, 'get_avoids'))
            r = names(t.m(lh, 'get_recommends'))
        else:
            r = names(t.m(lh, 'get_recommends'))
            a = names(t.m(lh, 'get_avoids'))
        sh = t.m(cmh.solar_time_n(n, 84600), 'get_sixty_cycle_hour')
        return (r, a, names(t.m(sh, 'get_recommends')), names(t.m(sh, 'get_avoids')))

    def fresh23_orc(x):
        k, order = x
        n = CAL.jdn(2000, 3, 1) + k
        dp = (n + 50) % 60
        hp = [G.sixty(i) for i in range(60)].index(G.STEMS[G.STEMS.index(G.FIVE_RATS[G.STEMS[dp % 10]])] + u'子')
        d, h = t.sixty(dp), t.sixty(hp)
        r, a = names(I.call('Taboo::get_hour_recommends', [d, h])), names(I.call('Taboo::get_hour_avoids', [d, h]))
        return (r, a, r, a)
    table(ctx, 'WIRING', 'WIRING:hour-23-fresh', [(k, o) for k in range(0, 12) for o in (0, 1)], fresh23, fresh23_orc,
          'at 23:xx both hour views use the NEXT day\'s pillar, for a freshly built value and in either call order', lambda x: 'day+%d order=%d' % x, fn_site(p, 'LunarHour::get_avoids'))

    # ---- luck split
    names = t.names('GOD_NAMES')

    def luck(i):
        return t.name(t.m(t.mk('God', i), 'get_luck'))
    lucks = None
    try:
        lucks = [luck(i) for i in range(n_gods)]
    except Unanalysable as u:
        ctx.unanalysable('PETE-TABLE', 'God::get_luck', str(u))
    if lucks is not None:
        wrong = [(names[i], lucks[i]) for i in range(n_gods) if (names[i] in A.AUSPICIOUS and lucks[i] != u'吉') or (names[i] in A.OMINOUS and lucks[i] != u'凶')]
        judged = sum(1 for n in names if n in A.AUSPICIOUS or n in A.OMINOUS)
        # split consistency: once ominous, never auspicious again (the list is "auspicious names first")
        first_bad = lucks.index(u'凶') if u'凶' in lucks else n_gods
        nonmono = [names[i] for i in range(first_bad, n_gods) if lucks[i] == u'吉']
        if wrong:
            ctx.violation('PETE-TABLE', 'God::get_luck:class', 'spirit classed against the classical lists: %s (%d of %d judged names)' % (wrong[:4], len(wrong), judged), {'wrong': wrong}, n_gods)
        elif nonmono:
            ctx.violation('PETE-TABLE', 'God::get_luck:split', 'luck is not a single split of the list: %s auspicious after the first ominous entry' % nonmono[:4], {}, n_gods)
        else:
            ctx.ok('PETE-TABLE', n_gods, {'fn': 'God::get_luck', 'judged_by_oracle': judged, 'split_at': first_bad, 'site': fn_site(p, 'God::get_luck')})

    # ---- kitchen god: values always in 1..12 and equal to "first day of the first month on which the target stem/branch falls"
    num = t.names('NUMBERS')
    want_b = {'get_mouse': (u'子', u'%s鼠偷粮'), 'get_grass': (u'子', u'草子%s分'), 'get_cattle': (u'丑', u'%s牛耕田'), 'get_flower': (u'卯', u'花收%s分'),
              'get_dragon': (u'辰', u'%s龙治水'), 'get_horse': (u'午', u'%s马驮谷'), 'get_chicken': (u'酉', u'%s鸡抢米'), 'get_silkworm': (u'酉', u'%s姑看蚕'),
              'get_pig': (u'亥', u'%s屠共猪')}
    want_s = {'get_field': (u'甲', u'甲田%s分'), 'get_cake': (u'丙', u'%s人分饼'), 'get_gold': (u'辛', u'%s日得金')}
    CN = [u'一', u'二', u'三', u'四', u'五', u'六', u'七', u'八', u'九', u'十', u'十一', u'十二']

    def kg(i):
        from pete import SV
        return SV('KitchenGodSteed', {'first_day_sixty_cycle': t.sixty(i)})
    for meth, (target, fmt) in list(want_b.items()) + list(want_s.items()):
        is_b = meth in want_b

        def impl(i, meth=meth):
            return I.method(kg(i), meth)

        def orc(i, target=target, fmt=fmt, is_b=is_b):
            if is_b:
                steps = (G.BRANCHES.index(target) - i % 12) % 12
            else:
                steps = (G.STEMS.index(target) - i % 10) % 10
            return fmt % CN[steps]
        table(ctx, 'PETE-TABLE', 'KitchenGodSteed::%s' % meth, range(60), impl, orc, 'kitchen-god attribute = ordinal of the first %s day counted from new-year day (always 1..12)' % target, G.sixty, fn_site(p, 'KitchenGodSteed::%s' % meth))
    for meth, (tb, ts, fmt) in {'get_people_cakes': (u'寅', u'丙', u'%s人%s丙'), 'get_people_hoes': (u'寅', u'丁', u'%s人%s锄')}.items():
        table(ctx, 'PETE-TABLE', 'KitchenGodSteed::%s' % meth, range(60), (lambda m_: lambda i: I.method(kg(i), m_))(meth),
              (lambda tb, ts, fmt: lambda i: fmt % (CN[(G.BRANCHES.index(tb) - i % 12) % 12], CN[(G.STEMS.index(ts) - i % 10) % 10]))(tb, ts, fmt),
              'kitchen-god pair attribute in 1..12', G.sixty)

    # constructor wiring: the steed of lunar year y is seeded with the pillar of that year's NEW-YEAR DAY (month 1 day 1), through both public routes
    def kg_wire(y):
        a = I.call('KitchenGodSteed::from_lunar_year', [y])
        b = t.m(I.call('LunarYear::from_year', [y]), 'get_kitchen_god_steed')
        return (t.idx(a.f['first_day_sixty_cycle']), t.idx(b.f['first_day_sixty_cycle']), I.method(a, 'get_dragon') == I.method(b, 'get_dragon'))

    def kg_wire_orc(y):
        first = [mm for mm in cmh.months if mm['year'] == y and mm['month'] == 1][0]
        di = (int(first['first']) + 49) % 60
        return (di, di, True)
    table(ctx, 'WIRING', 'WIRING:kitchen-god-seed', [2000, 2001], kg_wire, kg_wire_orc,
          'KitchenGodSteed::from_lunar_year / LunarYear::get_kitchen_god_steed seed the attribute with the pillar of lunar new-year day', str, fn_site(p, 'KitchenGodSteed::new'))

    ctx.not_decided.append('that the day / hour views compute the key (month pillar, day pillar, hour pillar) they should from real dates: that is C07/C08/C09')
    ctx.assumptions.append('python `re` and the regex crate agree on the reader pattern `;XX(.[^;]*)` over the ASCII table data')
    return ('readers of the three packed almanac tables evaluated from the syntax tree over the whole finite key space (12x60 each, 2160 keys, '
            '3600 lookups); raw indices observed at from_index; luck split and kitchen-god attributes as exhaustive tables vs oracles')
