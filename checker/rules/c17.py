# -*- coding: utf-8 -*-
"""C17 — daily and hourly almanac cycles obey their defining recurrences.

All inputs are cycle indices, weekdays or small day offsets; every clause is an exhaustive finite table
evaluated from the syntax tree.  Civil days are points on Z carrying pillar (n+49) mod 60 and weekday
(n+1) mod 7 (day-line model, resting on C01/C07).
"""
from rlib import T, table, py, fn_site, Bottom, Unanalysable
from pete import SV, CellV, NONE, Opt, Symbolic, RInt
from dayline import DayLine
import ganzhi as G

# 二十八宿值日：申子辰日 日虚月毕火翼水箕木奎金鬼土氐；巳酉丑日 日房月危火觜水轸木斗金娄土柳；寅午戌日 日星月心火室水参木角金牛土胃；亥卯未日 日昴月张火尾水壁木井金亢土女
MANSION_BY_DAY = {u'申子辰': u'虚毕翼箕奎鬼氐', u'巳酉丑': u'房危觜轸斗娄柳', u'寅午戌': u'星心室参角牛胃', u'亥卯未': u'昴张尾壁井亢女'}
# 黄道十二神起例：寅申日(月)青龙起子，卯酉起寅，辰戌起辰，巳亥起午，子午起申，丑未起戌
QINGLONG_START = {u'寅': u'子', u'申': u'子', u'卯': u'寅', u'酉': u'寅', u'辰': u'辰', u'戌': u'辰', u'巳': u'午', u'亥': u'午', u'子': u'申', u'午': u'申', u'丑': u'戌', u'未': u'戌'}
DUTY = [u'建', u'除', u'满', u'平', u'定', u'执', u'破', u'危', u'成', u'收', u'开', u'闭']
SIX_STAR = [u'先胜', u'友引', u'先负', u'佛灭', u'大安', u'赤口']
NINE = [u'一', u'二', u'三', u'四', u'五', u'六', u'七', u'八', u'九']


def mansion_oracle(week, branch):
    b = G.BRANCHES[branch]
    for grp, ms in MANSION_BY_DAY.items():
        if b in grp:
            return ms[week]
    raise AssertionError


def twelve_oracle(owner_branch, own_branch):
    start = G.BRANCHES.index(QINGLONG_START[G.BRANCHES[owner_branch]])
    return G.TWELVE_STAR[(own_branch - start) % 12]


def run(ctx):
    from rules import shared
    ctx.include('effect_inventory', shared.effect_inventory)   # no new process-wide mutable state (MIR statics inventory)
    ctx.include('month_records', shared.month_records)   # leap table, solstice anchor, month memo, memo cells (shared, cached per source hash)
    I = ctx.interp(fuel=30000000)
    t = T(I)
    p = ctx.prog
    R = 'PETE-TABLE'
    ctx.rule(R, 'finite table over cycle indices / day offsets == defining recurrence (oracle)')
    ctx.rule('PETE-LAW', 'recurrence law over the whole finite domain (+1 per day etc.)')
    ctx.rule('SIB-AGREE', 'duplicated implementations agree on the whole finite domain')
    dl = DayLine(I, pillar0=49, week0=1)

    def scy(year):
        return SV('SixtyCycleYear', {'year': RInt(year, 'isize')})

    def scm(year, mi):
        return SV('SixtyCycleMonth', {'year': scy(year), 'month': t.sixty(mi)})

    def scd(n, mi, di, year=2000):
        return SV('SixtyCycleDay', {'solar_day': dl.day(n), 'month': scm(year, mi), 'day': t.sixty(di)})

    def sch(n, mi, di, hi, hour):
        st = SV('SolarTime', {'day': dl.day(n), 'hour': RInt(hour, 'usize'), 'minute': RInt(0, 'usize'), 'second': RInt(0, 'usize')})
        return SV('SixtyCycleHour', {'solar_time': st, 'day': scd(n, mi, di), 'hour': t.sixty(hi)})

    def jd(n):
        return SV('JulianDay', {'day': float(n)})

    def lunar_month(year, month, leap, first_n, index_in_year=None, day_count=30):
        return SV('LunarMonth', {'year': SV('LunarYear', {'year': RInt(year, 'isize')}), 'month': RInt(month, 'usize'), 'leap': leap,
                                 'day_count': RInt(day_count, 'usize'), 'index_in_year': RInt(month - 1 if index_in_year is None else index_in_year, 'usize'),
                                 'first_julian_day': jd(first_n)})

    def lunar_day(year, month, leap, day, first_n, scday=None):
        return SV('LunarDay', {'month': lunar_month(year, month, leap, first_n), 'day': RInt(day, 'usize'),
                               'solar_day': CellV(NONE, 'refcell'), 'sixty_cycle_day': CellV(Opt(scday) if scday is not None else NONE, 'refcell')})

    # concrete JulianDay -> day-line
    base_jd = I.overrides['JulianDay::get_solar_day']

    def jd_solar(I_, r, a):
        if isinstance(r, SV):
            return dl.day(int(r.f['day'] + 0.5))
        return base_jd(I_, r, a)
    I.overrides['JulianDay::get_solar_day'] = jd_solar
    I.overrides['JulianDay::get_week'] = lambda I_, r, a: I.call('Week::from_index', [int(r.f['day'] + 0.5) + 1])

    pairs12x60 = [(m, d) for m in range(12) for d in range(60)]
    pm = lambda x: u'月%s 日%s' % (G.BRANCHES[x[0] % 12], G.sixty(x[1]))

    # 1. day officer
    table(ctx, R, 'SixtyCycleDay::get_duty', pairs12x60, lambda x: t.name(t.m(scd(0, x[0], x[1]), 'get_duty')),
          lambda x: DUTY[(x[1] % 12 - x[0] % 12) % 12], u'day officer: 建 when day branch = month branch, +1 per branch', pm, fn_site(p, 'SixtyCycleDay::get_duty'))
    if p.has_fn('EightChar::get_duty'):
        table(ctx, 'SIB-AGREE', 'EightChar::get_duty', pairs12x60,
              lambda x: t.name(t.m(I.call('EightChar::from_sixty_cycle', [t.sixty(0), t.sixty(x[0]), t.sixty(x[1]), t.sixty(0)]), 'get_duty')),
              lambda x: DUTY[(x[1] % 12 - x[0] % 12) % 12], 'deprecated EightChar::get_duty copy agrees', pm)

    # 2. yellow/black path spirits (day: by month branch; hour: by day branch)
    table(ctx, R, 'SixtyCycleDay::get_twelve_star', pairs12x60, lambda x: t.name(t.m(scd(0, x[0], x[1]), 'get_twelve_star')),
          lambda x: twelve_oracle(x[0] % 12, x[1] % 12), u'day spirit: 青龙 start branch fixed by month branch, advances with the day branch', pm, fn_site(p, 'SixtyCycleDay::get_twelve_star'))
    hp = [(d, h) for d in range(60) for h in range(12)]
    table(ctx, R, 'SixtyCycleHour::get_twelve_star', hp, lambda x: t.name(t.m(sch(0, 0, x[0], x[1], (x[1] % 12) * 2), 'get_twelve_star')),
          lambda x: twelve_oracle(x[0] % 12, x[1] % 12), u'hour spirit: start fixed by day branch, advances with the hour branch', lambda x: u'日%s 时%s' % (G.sixty(x[0]), G.BRANCHES[x[1]]), fn_site(p, 'SixtyCycleHour::get_twelve_star'))

    # LunarHour copy: hour pillar is derived from its own day; the day used is the one reported by the sexagenary-hour view
    def lunar_hour(n, hour, schour=None):
        ld = lunar_day(2000, 1, False, 1, n)
        return SV('LunarHour', {'day': ld, 'hour': RInt(hour, 'usize'), 'minute': RInt(0, 'usize'), 'second': RInt(0, 'usize'),
                                'solar_time': CellV(NONE, 'refcell'), 'sixty_cycle_hour': CellV(Opt(schour) if schour is not None else NONE, 'refcell')})

    def lh_twelve(x):
        n, hour = x
        di = (n + 49) % 60
        day_for_hour = (di + 1) % 60 if hour == 23 else di
        h = lunar_hour(n, hour, sch(n, 0, day_for_hour, 0, hour))
        return t.name(t.m(h, 'get_twelve_star'))
    nh = [(n, hour) for n in range(60) for hour in range(24)]
    table(ctx, R, 'LunarHour::get_twelve_star', nh, lh_twelve,
          lambda x: twelve_oracle((((x[0] + 49) % 60) + (1 if x[1] == 23 else 0)) % 12, ((x[1] + 1) // 2) % 12),
          'lunar-hour copy: same rule, day rolls at 23:00', lambda x: 'day n=%d hour=%d' % x, fn_site(p, 'LunarHour::get_twelve_star'))

    # lunar-day wrappers of the day officer / day spirit: they must answer for the sexagenary day of the SAME civil day
    def ld_wrap(x):
        ld = lunar_day(2000, 1, False, 1, 2451545, scd(2451545, x[0], x[1]))
        return (t.name(t.m(ld, 'get_duty')), t.name(t.m(ld, 'get_twelve_star')))
    table(ctx, 'SIB-AGREE', 'LunarDay::get_duty/get_twelve_star', pairs12x60, ld_wrap,
          lambda x: (DUTY[(x[1] % 12 - x[0] % 12) % 12], twelve_oracle(x[0] % 12, x[1] % 12)),
          'lunar-day wrappers answer with the officer / spirit of their own sexagenary day (month pillar changes at the Jie, not at the lunar month)', pm, fn_site(p, 'LunarDay::get_duty'))

    # 3. twenty-eight mansions: all 84 (weekday, branch) combinations = 84 consecutive days
    days84 = list(range(2451545, 2451545 + 84))

    def ms_scd(n):
        return t.name(t.m(scd(n, 0, (n + 49) % 60), 'get_twenty_eight_star'))

    def ms_lunar(n):
        return t.name(t.m(lunar_day(2000, 1, False, 1, n), 'get_twenty_eight_star'))
    orc = lambda n: mansion_oracle((n + 1) % 7, ((n + 49) % 60) % 12)
    table(ctx, R, 'SixtyCycleDay::get_twenty_eight_star', days84, ms_scd, orc, u'28 mansions by (weekday, day branch) = classical 值日 table', lambda n: 'JDN %d' % n, fn_site(p, 'SixtyCycleDay::get_twenty_eight_star'))
    table(ctx, 'SIB-AGREE', 'LunarDay::get_twenty_eight_star', days84, ms_lunar, orc, 'lunar-day copy agrees with the classical table', lambda n: 'JDN %d' % n, fn_site(p, 'LunarDay::get_twenty_eight_star'))

    def ms_law(n):
        a = t.m(scd(n, 0, (n + 49) % 60), 'get_twenty_eight_star')
        b = t.m(scd(n + 1, 0, (n + 50) % 60), 'get_twenty_eight_star')
        lum = t.name(t.m(a, 'get_seven_star'))
        wk = t.name(I.call('Week::from_index', [(n + 1) % 7]))
        return ((t.idx(b) - t.idx(a)) % 28, lum == {u'日': u'日', u'一': u'月', u'二': u'火', u'三': u'水', u'四': u'木', u'五': u'金', u'六': u'土'}[wk])
    table(ctx, 'PETE-LAW', 'TwentyEightStar:+1/day,luminary=weekday', days84, ms_law, lambda n: (1, True), 'mansion advances one per day and its luminary is the weekday', lambda n: 'JDN %d' % n)

    # 4. six-day star: (|month| + day - 2) mod 6, leap month uses its own number
    md = [(m * s, d) for m in range(1, 13) for s in (1, -1) for d in range(1, 31)]
    table(ctx, R, 'LunarDay::get_six_star', md, lambda x: t.name(t.m(lunar_day(2000, abs(x[0]), x[0] < 0, x[1], 2451545), 'get_six_star')),
          lambda x: SIX_STAR[(abs(x[0]) + x[1] - 2) % 6], 'six-day star restarts each lunar month at (month number + day - 2) mod 6; a leap month uses its own number',
          lambda x: u'%s%d月%d日' % (u'闰' if x[0] < 0 else u'', abs(x[0]), x[1]), fn_site(p, 'LunarDay::get_six_star'))

    # 5. moon phase / minor Ren
    table(ctx, R, 'LunarDay::get_phase', range(1, 31), lambda d: t.idx(t.m(lunar_day(2000, 1, False, d, 2451545), 'get_phase')), lambda d: d - 1, 'moon phase index = day - 1', str)
    table(ctx, R, 'LunarDay::get_minor_ren', [(m, d) for m in range(1, 13) for d in range(1, 31)],
          lambda x: t.idx(t.m(lunar_day(2000, x[0], False, x[1], 2451545), 'get_minor_ren')), lambda x: ((x[0] - 1) + (x[1] - 1)) % 6, u'小六壬: month (m-1), day +(d-1)', str)

    # 6. year nine star, all years of the guard range; both copies
    years = list(range(-1, 10000))
    table(ctx, R, 'SixtyCycleYear::get_nine_star', years, lambda y: t.idx(t.m(I.call('SixtyCycleYear::from_year', [y]), 'get_nine_star')), lambda y: (1864 - y) % 9,
          u'year star descends one per year from 一白 in 1864 (上元甲子)', str, fn_site(p, 'SixtyCycleYear::get_nine_star'))
    table(ctx, 'SIB-AGREE', 'LunarYear::get_nine_star', years, lambda y: t.idx(t.m(I.call('LunarYear::from_year', [y]), 'get_nine_star')), lambda y: (1864 - y) % 9,
          'lunar-year copy agrees', str, fn_site(p, 'LunarYear::get_nine_star'))
    table(ctx, R, 'SixtyCycleYear::get_twenty', years, lambda y: (lambda tw: (t.idx(tw), t.idx(t.m(tw, 'get_sixty'))))(t.m(I.call('SixtyCycleYear::from_year', [y]), 'get_twenty')),
          lambda y: (((y - 1864) // 20) % 9, (((y - 1864) // 20) % 9) // 3), u'二十年一运 from 1864, three 运 per 元', str, fn_site(p, 'SixtyCycleYear::get_twenty'))
    table(ctx, 'SIB-AGREE', 'LunarYear::get_twenty', years, lambda y: t.idx(t.m(I.call('LunarYear::from_year', [y]), 'get_twenty')), lambda y: ((y - 1864) // 20) % 9, 'lunar-year copy agrees', str, fn_site(p, 'LunarYear::get_twenty'))

    # 7. month nine star over (year branch, month branch)
    # 子午卯酉年正月八白，辰戌丑未年正月五黄，寅申巳亥年正月二黑，逐月逆行
    def month_star_oracle(yb, k):  # k = months after 寅
        b = G.BRANCHES[yb]
        start = 7 if b in u'子午卯酉' else (4 if b in u'辰戌丑未' else 1)
        return (start - k) % 9
    ym = [(y, k) for y in range(60) for k in range(12)]

    def scm_star(x):
        y, k = x
        year = 4 + y   # pillar index of year Y is (Y - 4) mod 60
        first = t.m(scy(year), 'get_first_month')
        return t.idx(t.m(t.m(first, 'next', k), 'get_nine_star'))
    table(ctx, R, 'SixtyCycleMonth::get_nine_star', ym, scm_star, lambda x: month_star_oracle(x[0] % 12, x[1]), 'month star by year-branch group, descending per month', lambda x: u'%s年 寅+%d' % (G.sixty(x[0]), x[1]), fn_site(p, 'SixtyCycleMonth::get_nine_star'))
    table(ctx, 'SIB-AGREE', 'LunarMonth::get_nine_star', ym, lambda x: t.idx(t.m(lunar_month(4 + x[0], x[1] + 1, False, 2451545), 'get_nine_star')),
          lambda x: month_star_oracle(x[0] % 12, x[1]), 'lunar-month copy agrees (non-leap years)', lambda x: u'%s年 %d月' % (G.sixty(x[0]), x[1] + 1), fn_site(p, 'LunarMonth::get_nine_star'))

    # 8. hour nine star: ascending after the winter solstice, descending after the summer solstice
    # 冬至后：子午卯酉日子时起一白，辰戌丑未日起四绿，寅申巳亥日起七赤，顺行；夏至后：九紫、六白、三碧，逆行
    def hour_star_oracle(asc, db, hidx):
        b = G.BRANCHES[db]
        g = 0 if b in u'子午卯酉' else (1 if b in u'辰戌丑未' else 2)
        if asc:
            return ([0, 3, 6][g] + hidx) % 9
        return ([8, 5, 2][g] - hidx) % 9
    term_day = {(2000, 0): 100, (2000, 12): 282, (2001, 0): 465}
    dl.term_day = term_day
    dl.ymd = lambda n: (2000, 6, 1)
    # (464 / 465 / 470: the last days of the civil year, around and after its own December solstice - ascending again from that day)
    cases = [(n, db, hour) for n in (99, 100, 281, 282, 400, 464, 465, 470) for db in range(12) for hour in range(24)]

    def sch_star(x):
        n, db, hour = x
        return t.idx(t.m(sch(n, 0, db, 0, hour), 'get_nine_star'))

    def hour_orc(x):
        n, db, hour = x
        asc = 100 <= n < 282 or n >= 465
        hidx = 0 if hour == 23 else (hour + 1) // 2
        return hour_star_oracle(asc, db, hidx)
    table(ctx, R, 'SixtyCycleHour::get_nine_star', cases, sch_star, hour_orc, 'hour star: start by day-branch group, +/-1 per double-hour, direction by solstice half-year', lambda x: 'n=%d day-branch=%s hour=%d' % (x[0], G.BRANCHES[x[1]], x[2]), fn_site(p, 'SixtyCycleHour::get_nine_star'))

    def lh_star(x):
        n, db, hour = x
        # LunarHour derives its day pillar from its own lunar day: choose first_jd so that pillar branch = db
        nn = n
        while ((nn + 49) % 60) % 12 != db:
            nn += 1
        shift = nn - n
        dl.term_day = dict((k, v + shift) for k, v in term_day.items())
        try:
            h = lunar_hour(nn, hour)
            return t.idx(t.m(h, 'get_nine_star'))
        finally:
            dl.term_day = term_day

    def lh_orc(x):
        n, db, hour = x
        asc = 100 <= n < 282 or n >= 465
        return hour_star_oracle(asc, db, ((hour + 1) // 2) % 12)
    table(ctx, 'SIB-AGREE', 'LunarHour::get_nine_star', cases, lh_star, lh_orc, 'lunar-hour copy follows the same rule (its index-in-day has no 23:00 fold)', lambda x: 'n=%d day-branch=%s hour=%d' % (x[0], G.BRANCHES[x[1]], x[2]), fn_site(p, 'LunarHour::get_nine_star'))

    # 9. day nine star: turning days are the Jiazi days nearest to the solstices; +1/day ascending, -1/day descending
    def nearest_jiazi(n):
        idx = (n + 49) % 60
        return n + (60 - idx) if idx > 29 else n - idx

    def day_star_oracle(cfg, d):
        dz, xz, dz2 = cfg
        s1, ni, s2 = nearest_jiazi(dz), nearest_jiazi(xz), nearest_jiazi(dz2)
        if s1 <= d < ni:
            return (d - s1) % 9
        if ni <= d < s2:
            return (8 - (d - ni)) % 9
        if d >= s2:
            return (d - s2) % 9
        return None   # before the first turning day of the civil year: belongs to the previous descending run (only the recurrence is checked)
    pts = []
    for p0 in range(60):
        dz = 2451545 + p0          # winter-solstice day with every pillar
        for l1 in (181, 182, 183):
            for l2 in (365, 366):
                cfg = (dz, dz + l1, dz + l2)
                keys = set()
                for c in (nearest_jiazi(cfg[0]), nearest_jiazi(cfg[1]), nearest_jiazi(cfg[2])):
                    keys.update([c - 1, c, c + 1, c + 9])
                keys.update([dz, dz + l1, dz + 200])
                for d in sorted(keys):
                    if d >= dz - 40 and d <= dz + l2 + 8:
                        pts.append((cfg, d))

    def day_star(which):
        def f(x):
            cfg, d = x
            dl.term_day = {(2000, 0): cfg[0], (2000, 12): cfg[1], (2001, 0): cfg[2]}
            dl.ymd = lambda n: (2000, 6, 1)
            if which == 'scd':
                return t.idx(t.m(scd(d, 0, (d + 49) % 60), 'get_nine_star'))
            return t.idx(t.m(lunar_day(2000, 1, False, 1, d), 'get_nine_star'))
        return f

    def day_orc_or_same(which):
        impl = day_star(which)

        def f(x):
            o = day_star_oracle(x[0], x[1])
            if o is None:
                # recurrence only: -1 per day before the first turning day
                a = impl(x)
                b = impl((x[0], x[1] + 1))
                s1 = nearest_jiazi(x[0][0])
                if x[1] + 1 < s1 and (a - b) % 9 != 1:
                    return -1
                return a
            return o
        return f
    table(ctx, R, 'SixtyCycleDay::get_nine_star', pts, day_star('scd'), day_orc_or_same('scd'), u'day star: 一白 ascending from the Jiazi day nearest the winter solstice, 九紫 descending from the one nearest the summer solstice',
          lambda x: 'solstices=%s day=%d' % (x[0], x[1]), fn_site(p, 'SixtyCycleDay::get_nine_star'))
    table(ctx, 'SIB-AGREE', 'LunarDay::get_nine_star', pts, day_star('ld'), day_orc_or_same('ld'), 'lunar-day copy agrees', lambda x: 'solstices=%s day=%d' % (x[0], x[1]), fn_site(p, 'LunarDay::get_nine_star'))

    # ---- the first supported year
    from rules import range_end as _re
    _Ie = ctx.interp(fuel=50000000)
    _re.c17_edge(ctx, _Ie, T(_Ie))
    _re.c17_routes(ctx, _Ie, T(_Ie))

    ctx.assumptions.append('day-line model: civil days are consecutive integers (C01), pillar = (day number + 49) mod 60 and weekday = (day number + 1) mod 7 (C07)')
    ctx.not_decided.append('on which civil days the solstices fall and what their pillars are (numeric; C05/C06); the piecewise structure is decided for every solstice pillar')
    ctx.not_decided.append('day star before the first turning day of a civil year (belongs to the previous year\'s descending run): only the -1/day recurrence is decided')
    return ('exhaustive finite tables of the daily/hourly almanac recurrences (day officer, twelve spirits, 28 mansions, six-day star, moon phase, '
            'minor Ren, year/month/day/hour nine stars) evaluated from the syntax tree with symbolic day-line inputs; duplicated lunar/sexagenary '
            'copies checked to agree')
