# -*- coding: utf-8 -*-
"""C05 — solar terms and new moons at the true longitudes: structural clauses only (thin).

Decided from literals and code shape (never from series VALUES):
  * TT-UT model: knots strictly increasing; continuity at every spline join and at both extrapolation joins
    (the polynomial code is evaluated just left and right of each knot of its own literal table);
  * series tables: every index the series loops can form stays inside the tables for every admissible
    term-count argument (loops evaluated for their index behaviour only, value discarded);
  * fitted-segment tables (QI_KB / SHUO_KB): epochs increasing, rates near 15.2184 / 29.5306 days;
  * correction strings: decode to {0,1,2} only and are longer than the largest index the readers can form;
  * solver structure: the last Newton step of each precise inverse uses the full series; near civil midnight
    (UTC+8) the day-level solvers fall back to the precise solver; SolarTerm::get_julian_day uses the
    two-sided precise search.
NOT decided: every accuracy clause (longitudes, conjunctions, day agreement, residuals).
"""
import math
from rlib import T, table, py, fn_site, Bottom, Unanalysable
from prog import walk


def run(ctx, only_solver=False):
    from rules import shared
    if not only_solver:
        ctx.include('month_records', shared.month_records)   # lunar months' first days are served through the month memo
    ctx.include('effect_inventory', shared.effect_inventory)   # no new process-wide mutable state (MIR statics inventory)
    p = ctx.prog
    I = ctx.interp(fuel=200000000)
    for f in list(I.forbidden):
        if f.startswith('ShouXingUtil'):
            I.forbidden.discard(f)     # numeric code is evaluated here ONLY on the knots of its own tables / for index behaviour
    t = T(I)
    ctx.rule('CONSTREL-DT', 'TT-UT model continuous within 5 s at every join of its literal spline table and at the extrapolation joins')
    ctx.rule('TABLES-SERIES', 'series / fit tables: shapes, monotone epochs, rates; all loop indices in bounds for every term-count argument')
    ctx.rule('TABLES-CORR', 'correction strings decode to {0,1,2} and cover the largest index their readers can form')
    ctx.rule('FLOW-SOLVER', 'solver structure: full series in the last Newton step; midnight guard falls back to the precise solver; two-sided precise search')
    F = 'src/tyme/util.rs'
    if only_solver:
        return _solver_rules(ctx, p, I, F)

    # ---- series tables and loop indices
    def shapes():
        xl0 = py(I.static('XL0', F))
        xl1 = py(I.static('XL1', F))
        nut = py(I.static('NUT_B', F))
        hdr = [int(x) for x in xl0[1:8]]
        if any(b < a for a, b in zip(hdr, hdr[1:])):
            return 'XL0 block header not non-decreasing: %s' % hdr
        if hdr[-1] > len(xl0):
            return 'XL0 header points past the table (%d > %d)' % (hdr[-1], len(xl0))
        if any((b - a) % 3 for a, b in zip(hdr, hdr[1:])):
            return 'XL0 block length not a multiple of 3'
        for i, row in enumerate(xl1):
            if len(row) % 6:
                return 'XL1 row %d length %d not a multiple of 6' % (i, len(row))
        if len(nut) % 5:
            return 'NUT_B length %d not a multiple of 5' % len(nut)
        return None
    ctx.guard('TABLES-SERIES', 'TABLES:series:shape', shapes, 3)

    def bounds():
        n = 0
        for nn in list(range(-1, 70)) + [200, 1000]:
            I.call('ShouXingUtil::elon', [0.1, nn])
            n += 1
        for pn in list(range(-1, 70)) + [200, 1000]:
            I.call('ShouXingUtil::mlon', [0.1, pn])
            n += 1
        I.call('ShouXingUtil::nutation_lon2', [0.1])
        bounds.n = n
        return None
    ctx.guard('TABLES-SERIES', 'TABLES:series:index-bounds', bounds, 150, {'fns': ['ShouXingUtil::elon', 'ShouXingUtil::mlon', 'ShouXingUtil::nutation_lon2']})

    def fits():
        for name, rate in (('QI_KB', 15.2184), ('SHUO_KB', 29.5306)):
            kb = py(I.static(name, F))
            if len(kb) % 2 != 1:
                return '%s must be (epoch, rate) pairs plus a terminal epoch (len %d)' % (name, len(kb))
            ep = kb[0::2]
            rt = kb[1::2]
            for a, b in zip(ep, ep[1:]):
                if not b > a:
                    return '%s epochs not increasing: %s then %s' % (name, a, b)
            for r in rt:
                if abs(r - rate) / rate > 0.001:
                    return '%s rate %s is not within 0.1%% of %s days' % (name, r, rate)
        return None
    ctx.guard('TABLES-SERIES', 'TABLES:fit-tables', fits, 2)

    # ---- correction strings
    def corr():
        for name, kbname, stride in (('QB', 'QI_KB', 365.2422 / 24.0), ('SB', 'SHUO_KB', 29.5306)):
            s = py(I.static(name, F))
            bad = sorted(set(s) - set('012'))
            if bad:
                return '%s decodes to characters outside {0,1,2}: %s' % (name, bad[:5])
            kb = py(I.static(kbname, F))
            f2 = kb[-1] - (7.0 if name == 'QB' else 14.0)
            f3 = 2436935.0
            max_idx = int((f3 - f2) / stride)
            if len(s) <= max_idx:
                return '%s has %d symbols but its reader can form index %d' % (name, len(s), max_idx)
        return None
    ctx.guard('TABLES-CORR', 'TABLES:QB/SB', corr, 2)

    # (the solver-structure rules - TT-UT continuity, branch selection, midnight guards, correction-string readers, Newton steps - arrive with the month_records bundle)

    # a term built by name, by index or by stepping must be THE term k of that year (year/index arithmetic and the cursory-day seed; series stubbed)
    from rules import c06 as _c06
    _c06.term_ctor_rules(ctx)

    ctx.not_decided.append('every accuracy clause of the statement: longitudes at the reported instants, agreement with an independent theory, sub-arcsecond residuals, day agreement from 1961 on (all series values)')
    ctx.assumptions.append('series functions are evaluated only for their index behaviour / at the knots of their own literal tables; no series value enters a verdict')
    return ('structural necessary conditions only: TT-UT spline continuity at its own knots, table shapes and loop index bounds, fit-table monotonicity, correction-string alphabet and coverage, '
            'full series in the last Newton step, midnight fall-back of the day-level solvers')


def _solver_rules(ctx, p, I, F):
    ctx.rule('TABLES-CORR', 'correction strings decode to {0,1,2}, cover the largest index their readers can form, and the k-th symbol is read for the k-th period')
    ctx.rule('FLOW-SOLVER', 'solver structure: full series in the last Newton step; midnight guard falls back to the precise solver; two-sided precise search')
    ctx.rule('CONSTREL-DT', 'TT-UT model continuous within 5 s at every join of its literal spline table and at the extrapolation joins')
    def dt():
        at = py(I.static('DT_AT', F))
        if (len(at) - 2) % 5 != 0:
            return 'DT_AT has %d entries: not (year,a,b,c,d)x n + (year, value)' % len(at)
        knots = [at[i] for i in range(0, len(at) - 2, 5)] + [at[-2]]
        for a, b in zip(knots, knots[1:]):
            if not b > a:
                return 'TT-UT knots not increasing: %s then %s' % (a, b)
        worst = (0.0, None)
        eps = 1e-7
        for y in knots[1:]:
            l = I.call('ShouXingUtil::dt_calc', [y - eps])
            r = I.call('ShouXingUtil::dt_calc', [y + eps])
            d = abs(l - r)
            if d > worst[0]:
                worst = (d, y)
        y0 = knots[-1]
        for y in (y0 + 100.0,):
            l = I.call('ShouXingUtil::dt_calc', [y - eps])
            r = I.call('ShouXingUtil::dt_calc', [y + eps])
            if abs(l - r) > worst[0]:
                worst = (abs(l - r), y)
        if worst[0] > 5.0:
            return ('TT-UT jumps by %.1f s at year %s (joins must be continuous to within a few seconds)' % worst, {})
        return None
    ctx.guard('CONSTREL-DT', 'CONSTREL:DT_AT:continuity', dt, 24, {'table': 'DT_AT', 'site': fn_site(p, 'ShouXingUtil::dt_calc')})


    # ---- solver structure (syntax)
    def calls_in(fnq, callee):
        fn = p.fn(fnq)
        out = []

        def v(n):
            if n.get('k') == 'call' and n['f'].get('k') == 'path' and n['f']['segs'][-1] == callee:
                out.append(n)
        walk(fn.body, v)
        out.sort(key=lambda n: n.get('ln', 0))
        return out

    def lit(n):
        if n.get('k') == 'int':
            return int(n['v'])
        if n.get('k') == 'un' and n['op'] == '-' and n['e'].get('k') == 'int':
            return -int(n['e']['v'])
        return None

    def newton():
        c = calls_in('ShouXingUtil::sa_lon_t', 'sa_lon')
        if not c:
            raise Unanalysable('no sa_lon call in sa_lon_t')
        if lit(c[-1]['args'][1]) != -1:
            return 'the last correction step of sa_lon_t evaluates the solar series with %s terms instead of all (-1)' % lit(c[-1]['args'][1])
        c = calls_in('ShouXingUtil::m_sa_lon_t', 'm_sa_lon')
        if not c:
            raise Unanalysable('no m_sa_lon call in m_sa_lon_t')
        if lit(c[-1]['args'][1]) != -1:
            return 'the last correction step of m_sa_lon_t evaluates the lunar series with %s terms instead of all (-1)' % lit(c[-1]['args'][1])
        if not calls_in('SolarTerm::get_julian_day', 'qi_accurate2'):
            return 'SolarTerm::get_julian_day no longer uses the two-sided precise search qi_accurate2'
        return None
    ctx.guard('FLOW-SOLVER', 'FLOW:newton-last-step', newton, 3)

    # midnight guard: evaluate qi_high / shuo_high with the solvers stubbed; t is chosen so that the UTC+8 civil time is `sec` seconds after midnight
    def guard(fnname, fast, precise, window):
        def f():
            marks = []
            dargs = []
            third = py(I.static('ONE_THIRD', F)) if 'ONE_THIRD' in p.static_defs else 1.0 / 3.0
            state = {}

            def fast_stub(I_, r, a):
                return state['t'] / 36525.0

            def precise_stub(I_, r, a):
                marks.append(1)
                return state['t'] / 36525.0
            I.overrides['ShouXingUtil::' + fast] = fast_stub
            I.overrides['ShouXingUtil::' + precise] = precise_stub
            def dtt_stub(I_, r, a):
                dargs.append(float(a[0]))
                return 0.0
            I.overrides['ShouXingUtil::dtt'] = dtt_stub
            try:
                for day in (0, 7300, -36000):
                    for sec in (1, 60, 300, 86400 - 300, 86400 - 60, 86400 - 1):
                        # result t' = t + 1/3 ; civil seconds = frac(t' + 0.5) * 86400
                        state['t'] = day - 0.5 + sec / 86400.0 - third
                        del marks[:]
                        del dargs[:]
                        I.call('ShouXingUtil::' + fnname, [0.0])
                        # units: the solvers return Julian centuries, TT-UT is tabulated per DAY number; every dtt argument must be the day value (x 36525)
                        off = [a_ for a_ in dargs if abs(a_ - state['t']) > 1.0]
                        if off and day != 0:
                            return '%s passes %.6g to dtt where the instant is day %.3f from J2000: dtt takes days, the solvers return Julian centuries (x 36525 missing on that path)' % (fnname, off[0], state['t'])
                        if not marks:
                            return '%s does not fall back to the precise solver %s for an instant %d s from civil midnight (UTC+8): a term/new moon that close to midnight may get the wrong calendar day' % (fnname, precise, min(sec, 86400 - sec))
                return None
            finally:
                for k in (fast, precise, 'dtt'):
                    I.overrides.pop('ShouXingUtil::' + k, None)
        return f
    # readers of the two correction strings: between the end of the fitted table and 1960 the k-th symbol corrects the k-th term / lunation
    # counted from that epoch (one symbol per period).  Evaluated with the low-precision solver stubbed by 0, so the result IS the correction read.
    def corr_reader(fnname, low, kbname, sname, pc, period):
        def f():
            kb = py(I.static(kbname, F))
            sym = py(I.static(sname, F))
            f2 = kb[-1] - pc
            f3 = 2436935.0
            I.overrides['ShouXingUtil::' + low] = lambda I_, r, a: 0.0
            try:
                n = int((f3 - f2) / period)
                bad = None
                cnt = 0
                for k in range(0, n):
                    want = {'0': 0.0, '1': 1.0, '2': -1.0}[sym[k]]
                    for frac in (0.02, 0.25, 0.5, 0.75, 0.98):
                        jd = f2 + period * (k + frac)
                        if jd >= f3:
                            continue
                        got = I.call('ShouXingUtil::' + fnname, [jd - 2451545.0])
                        cnt += 1
                        if got != want and bad is None:
                            bad = '%s reads correction %+d for a seed %.2f periods into period %d after the end of %s, symbol %d of %s says %+d: the k-th symbol corrects the k-th period' % (fnname, got, frac, k, kbname, k, sname, want)
                f.n = cnt
                return bad
            finally:
                I.overrides.pop('ShouXingUtil::' + low, None)
        return f
    ctx.guard('TABLES-CORR', 'TABLES:SB:reader', corr_reader('calc_shuo', 'shuo_low', 'SHUO_KB', 'SB', 14.0, 29.5306), 16000, {'fn': fn_site(p, 'ShouXingUtil::calc_shuo')})
    ctx.guard('TABLES-CORR', 'TABLES:QB:reader', corr_reader('calc_qi', 'qi_low', 'QI_KB', 'QB', 7.0, 365.2422 / 24.0), 8000, {'fn': fn_site(p, 'ShouXingUtil::calc_qi')})

    # which routine serves which range: inside the fitted table no solver at all, between its end and 1960 the low-precision solver (plus the
    # correction string), everywhere else the high-precision day solver
    def branches(fnname, kbname, pc, low, high):
        def f():
            kb = py(I.static(kbname, F))
            f1, f2, f3 = kb[0] - pc, kb[-1] - pc, 2436935.0
            calls = []
            saved = {}
            for nm in (low, high):
                saved[nm] = I.overrides.get('ShouXingUtil::' + nm)
                I.overrides['ShouXingUtil::' + nm] = (lambda nm_: lambda I_, r, a: (calls.append(nm_), 0.0)[1])(nm)
            try:
                probes = [(f1 - 4000.0, high), (f1 - 1.0, high), (f1 + 1.0, None), ((f1 + f2) / 2, None), (f2 - 1.0, None), (f2 + 1.0, low), ((f2 + f3) / 2, low), (f3 - 1.0, low),
                          (f3 + 0.5, high), (f3 + 20000.0, high), (2451545.0 + 2900000.0, high)]
                for jd, want in probes:
                    del calls[:]
                    I.call('ShouXingUtil::' + fnname, [jd - 2451545.0])
                    got = sorted(set(calls))
                    if got != ([want] if want else []):
                        return '%s at Julian day %.1f uses %s, expected %s (fitted table: none; table end .. 1960: %s; elsewhere: %s)' % (fnname, jd, got or 'no solver', want or 'no solver', low, high)
                return None
            finally:
                for nm, v in saved.items():
                    if v is None:
                        I.overrides.pop('ShouXingUtil::' + nm, None)
                    else:
                        I.overrides['ShouXingUtil::' + nm] = v
        return f
    ctx.guard('FLOW-SOLVER', 'FLOW:calc_qi:branches', branches('calc_qi', 'QI_KB', 7.0, 'qi_low', 'qi_high'), 11, {'fn': fn_site(p, 'ShouXingUtil::calc_qi')})
    ctx.guard('FLOW-SOLVER', 'FLOW:calc_shuo:branches', branches('calc_shuo', 'SHUO_KB', 14.0, 'shuo_low', 'shuo_high'), 11, {'fn': fn_site(p, 'ShouXingUtil::calc_shuo')})

    ctx.guard('FLOW-SOLVER', 'FLOW:qi_high:midnight-guard', guard('qi_high', 'sa_lon_t2', 'sa_lon_t', 1200), 18, {'fn': fn_site(p, 'ShouXingUtil::qi_high')})
    ctx.guard('FLOW-SOLVER', 'FLOW:shuo_high:midnight-guard', guard('shuo_high', 'm_sa_lon_t2', 'm_sa_lon_t', 1800), 18, {'fn': fn_site(p, 'ShouXingUtil::shuo_high')})

