# -*- coding: utf-8 -*-
"""C19 — stem and branch attributes match the classical correspondence rules.

Every getter is a finite function of cycle indices; PETE tabulates it over its whole domain and the table
is compared with the first-principles encoding in /verif/oracles/ganzhi.py (written in terms of names).
"""
from rlib import T, table, py, fn_site
import ganzhi as G

RULE = 'PETE-TABLE'


def run(ctx):
    from rules import shared
    ctx.include('effect_inventory', shared.effect_inventory)   # no new process-wide mutable state (MIR statics inventory)
    I = ctx.interp()
    t = T(I)
    p = ctx.prog
    ctx.rule(RULE, 'finite table of a getter over its whole cycle-index domain == first-principles oracle')
    ctx.rule('PETE-LAW', 'algebraic law (involution / inverse pair) over the whole finite domain')
    ctx.rule('NAMES', 'name table equals the classical sequence')

    def names_eq(static, expect, key):
        def f():
            got = t.names(static)
            if list(got) != list(expect):
                diffs = [(i, a, b) for i, (a, b) in enumerate(zip(got, expect)) if a != b]
                return ('%s differs from the classical sequence at %s (len %d vs %d)' % (static, diffs[:3], len(got), len(expect)), {})
        ctx.guard('NAMES', 'NAMES:%s' % key, f, len(expect), {'rule': 'NAMES', 'static': static, 'len': len(expect)})

    names_eq('HEAVEN_STEM_NAMES', list(G.STEMS), 'HEAVEN_STEM_NAMES')
    names_eq('EARTH_BRANCH_NAMES', list(G.BRANCHES), 'EARTH_BRANCH_NAMES')
    names_eq('ELEMENT_NAMES', list(G.ELEMENTS), 'ELEMENT_NAMES')
    names_eq('ZODIAC_NAMES', list(G.ZODIAC), 'ZODIAC_NAMES')
    names_eq('SIXTY_CYCLE_NAMES', [G.sixty(i) for i in range(60)], 'SIXTY_CYCLE_NAMES')
    names_eq('DIRECTION_NAMES', G.LUOSHU, 'DIRECTION_NAMES(luoshu)')
    names_eq('TERRAIN_NAMES', G.TERRAIN_ORDER, 'TERRAIN_NAMES')
    names_eq('TEN_NAMES', [h for h, _ in G.XUN], 'TEN_NAMES')
    names_eq('TWENTY_EIGHT_STAR_NAMES', list(G.MANSIONS), 'TWENTY_EIGHT_STAR_NAMES')
    names_eq('ANIMAL_NAMES', list(G.MANSION_ANIMAL), 'ANIMAL_NAMES')
    names_eq('TWELVE_STAR_NAMES', G.TWELVE_STAR, 'TWELVE_STAR_NAMES')
    names_eq('NINE_STAR_NAMES', [n for n, _, _ in G.NINE_STAR], 'NINE_STAR_NAMES')
    names_eq('DIPPER_NAMES', G.DIPPER, 'DIPPER_NAMES')
    names_eq('FETUS_MONTH_NAMES', G.FETUS_MONTH, 'FETUS_MONTH_NAMES')
    names_eq('TEN_STAR_NAMES', [u'比肩', u'劫财', u'食神', u'伤官', u'偏财', u'正财', u'七杀', u'正官', u'偏印', u'正印'], 'TEN_STAR_NAMES')

    def nm(v):
        return t.name(v)

    S = range(10)
    B = range(12)
    sname = lambda i: G.STEMS[i]
    bname = lambda i: G.BRANCHES[i]

    # ---- heavenly stems
    table(ctx, RULE, 'HeavenStem::get_element', S, lambda i: nm(t.m(t.stem(i), 'get_element')), lambda i: G.STEM_ELEMENT[sname(i)], 'stem element', sname, fn_site(p, 'HeavenStem::get_element'))
    table(ctx, RULE, 'HeavenStem::get_yin_yang', S, lambda i: nm(t.m(t.stem(i), 'get_yin_yang')), lambda i: u'阳' if G.STEM_YANG[sname(i)] else u'阴', 'stem polarity', sname)
    table(ctx, RULE, 'HeavenStem::get_direction', S, lambda i: nm(t.m(t.stem(i), 'get_direction')), lambda i: G.ELEMENT_DIRECTION[G.STEM_ELEMENT[sname(i)]], 'stem direction = direction of its element', sname)
    for meth, orc, what in (('get_joy_direction', G.JOY, u'喜神方位歌'), ('get_yang_direction', G.YANG_NOBLE, u'阳贵神歌'),
                            ('get_yin_direction', G.YIN_NOBLE, u'阴贵神歌'), ('get_wealth_direction', G.WEALTH, u'财神方位歌'),
                            ('get_mascot_direction', G.MASCOT, u'福神方位歌')):
        table(ctx, RULE, 'HeavenStem::%s' % meth, S, (lambda m_: lambda i: nm(t.m(t.stem(i), m_)))(meth), (lambda o: lambda i: o[sname(i)])(orc), what, sname, fn_site(p, 'HeavenStem::%s' % meth))
    table(ctx, RULE, 'HeavenStem::get_ten_star', [(a, b) for a in S for b in S], lambda ab: nm(t.m(t.stem(ab[0]), 'get_ten_star', t.stem(ab[1]))),
          lambda ab: G.ten_star(sname(ab[0]), sname(ab[1])), 'ten stars from element relation x polarity', lambda ab: sname(ab[0]) + u'见' + sname(ab[1]), fn_site(p, 'HeavenStem::get_ten_star'))
    table(ctx, RULE, 'HeavenStem::get_terrain', [(a, b) for a in S for b in B], lambda ab: nm(t.m(t.stem(ab[0]), 'get_terrain', t.branch(ab[1]))),
          lambda ab: G.terrain(sname(ab[0]), bname(ab[1])), 'twelve growth stages', lambda ab: sname(ab[0]) + bname(ab[1]), fn_site(p, 'HeavenStem::get_terrain'))
    table(ctx, RULE, 'HeavenStem::get_combine', S, lambda i: nm(t.m(t.stem(i), 'get_combine')), lambda i: G.FIVE_COMBINE[sname(i)][0], 'five combinations partner', sname)

    def stem_combine(ab):
        r = t.m(t.stem(ab[0]), 'combine', t.stem(ab[1]))
        return nm(r.v) if r.some else None
    table(ctx, RULE, 'HeavenStem::combine', [(a, b) for a in S for b in S], stem_combine,
          lambda ab: G.FIVE_COMBINE[sname(ab[0])][1] if G.FIVE_COMBINE[sname(ab[0])][0] == sname(ab[1]) else None, 'five combinations transformed element', lambda ab: sname(ab[0]) + sname(ab[1]))
    table(ctx, 'PETE-LAW', 'HeavenStem::get_combine:involution', S, lambda i: t.idx(t.m(t.m(t.stem(i), 'get_combine'), 'get_combine')), lambda i: i, 'combine is an involution', sname)

    # ---- earthly branches
    table(ctx, RULE, 'EarthBranch::get_element', B, lambda i: nm(t.m(t.branch(i), 'get_element')), lambda i: G.BRANCH_ELEMENT[bname(i)], 'branch element', bname, fn_site(p, 'EarthBranch::get_element'))
    table(ctx, RULE, 'EarthBranch::get_yin_yang', B, lambda i: nm(t.m(t.branch(i), 'get_yin_yang')), lambda i: u'阳' if G.BRANCH_YANG[bname(i)] else u'阴', 'branch polarity', bname)
    table(ctx, RULE, 'EarthBranch::get_direction', B, lambda i: nm(t.m(t.branch(i), 'get_direction')), lambda i: G.ELEMENT_DIRECTION[G.BRANCH_ELEMENT[bname(i)]], 'branch direction = direction of its element', bname)
    table(ctx, RULE, 'EarthBranch::get_zodiac', B, lambda i: nm(t.m(t.branch(i), 'get_zodiac')), lambda i: G.ZODIAC[i], 'zodiac animal', bname)
    table(ctx, RULE, 'EarthBranch::get_hide_heaven_stem_main', B, lambda i: nm(t.m(t.branch(i), 'get_hide_heaven_stem_main')), lambda i: G.HIDDEN[bname(i)][0], 'hidden stem (main)', bname)

    def opt_name(v):
        return nm(v.v) if v.some else None
    table(ctx, RULE, 'EarthBranch::get_hide_heaven_stem_middle', B, lambda i: opt_name(t.m(t.branch(i), 'get_hide_heaven_stem_middle')), lambda i: (G.HIDDEN[bname(i)][1] if len(G.HIDDEN[bname(i)]) > 1 else None), 'hidden stem (middle)', bname)
    table(ctx, RULE, 'EarthBranch::get_hide_heaven_stem_residual', B, lambda i: opt_name(t.m(t.branch(i), 'get_hide_heaven_stem_residual')), lambda i: (G.HIDDEN[bname(i)][2] if len(G.HIDDEN[bname(i)]) > 2 else None), 'hidden stem (residual)', bname)

    def hidden_list(i):
        l = t.m(t.branch(i), 'get_hide_heaven_stems')
        return [(nm(t.m(h, 'get_heaven_stem')), nm(t.m(h, 'get_type'))) for h in l]
    table(ctx, RULE, 'EarthBranch::get_hide_heaven_stems', B, hidden_list, lambda i: list(zip(G.HIDDEN[bname(i)], [u'本气', u'中气', u'余气'])), 'hidden stem list: main, middle, residual in order', bname)
    table(ctx, RULE, 'EarthBranch::get_opposite', B, lambda i: nm(t.m(t.branch(i), 'get_opposite')), lambda i: G.CLASH[bname(i)], 'six clashes', bname)
    table(ctx, RULE, 'EarthBranch::get_ominous', B, lambda i: nm(t.m(t.branch(i), 'get_ominous')), lambda i: G.OMINOUS[bname(i)], u'煞 direction', bname, fn_site(p, 'EarthBranch::get_ominous'))
    table(ctx, RULE, 'EarthBranch::get_combine', B, lambda i: nm(t.m(t.branch(i), 'get_combine')), lambda i: G.SIX_COMBINE[bname(i)][0], 'six combinations partner', bname)

    def branch_combine(ab):
        r = t.m(t.branch(ab[0]), 'combine', t.branch(ab[1]))
        return nm(r.v) if r.some else None
    table(ctx, RULE, 'EarthBranch::combine', [(a, b) for a in B for b in B], branch_combine,
          lambda ab: G.SIX_COMBINE[bname(ab[0])][1] if G.SIX_COMBINE[bname(ab[0])][0] == bname(ab[1]) else None, 'six combinations transformed element', lambda ab: bname(ab[0]) + bname(ab[1]))
    table(ctx, RULE, 'EarthBranch::get_harm', B, lambda i: nm(t.m(t.branch(i), 'get_harm')), lambda i: G.HARM[bname(i)], 'six harms', bname)
    for meth in ('get_opposite', 'get_combine', 'get_harm'):
        table(ctx, 'PETE-LAW', 'EarthBranch::%s:involution' % meth, B, (lambda m_: lambda i: t.idx(t.m(t.m(t.branch(i), m_), m_)))(meth), lambda i: i, '%s is an involution' % meth, bname)

    # ---- elements & directions
    E = range(5)
    en = lambda i: G.ELEMENTS[i]
    el = lambda i: t.mk('Element', i)
    table(ctx, RULE, 'Element::get_reinforce', E, lambda i: nm(t.m(el(i), 'get_reinforce')), lambda i: [x for x in G.ELEMENTS if G.generates(en(i), x)][0], u'我生者', en)
    table(ctx, RULE, 'Element::get_restrain', E, lambda i: nm(t.m(el(i), 'get_restrain')), lambda i: [x for x in G.ELEMENTS if G.overcomes(en(i), x)][0], u'我克者', en)
    table(ctx, RULE, 'Element::get_reinforced', E, lambda i: nm(t.m(el(i), 'get_reinforced')), lambda i: [x for x in G.ELEMENTS if G.generates(x, en(i))][0], u'生我者', en)
    table(ctx, RULE, 'Element::get_restrained', E, lambda i: nm(t.m(el(i), 'get_restrained')), lambda i: [x for x in G.ELEMENTS if G.overcomes(x, en(i))][0], u'克我者', en)
    table(ctx, RULE, 'Element::get_direction', E, lambda i: nm(t.m(el(i), 'get_direction')), lambda i: G.ELEMENT_DIRECTION[en(i)], 'element direction', en)
    table(ctx, 'PETE-LAW', 'Element::reinforce/reinforced:inverse', E, lambda i: (t.idx(t.m(t.m(el(i), 'get_reinforce'), 'get_reinforced')), t.idx(t.m(t.m(el(i), 'get_restrain'), 'get_restrained'))), lambda i: (i, i), 'generate/generated-by and overcome/overcome-by are inverse pairs', en)
    D = range(9)
    table(ctx, RULE, 'Direction::get_element', D, lambda i: nm(t.m(t.mk('Direction', i), 'get_element')), lambda i: G.DIRECTION_ELEMENT[G.LUOSHU[i]], 'direction element (Luoshu palaces)', lambda i: G.LUOSHU[i])

    # ---- sixty cycle: nayin, xun, void
    C = range(60)
    cn = G.sixty

    def nayin_ok(i):
        got = nm(t.m(t.sixty(i), 'get_sound'))
        exp = G.NAYIN[i // 2]
        if got == exp or got in G.NAYIN_VARIANTS.get(exp, []):
            return exp
        return got
    table(ctx, RULE, 'SixtyCycle::get_sound', C, nayin_ok, lambda i: G.NAYIN[i // 2], u'纳音 (pairs share a sound; classical 30-name list)', cn, fn_site(p, 'SixtyCycle::get_sound'))
    names_eq('SOUND_NAMES', [t.names('SOUND_NAMES')[i] if t.names('SOUND_NAMES')[i] in G.NAYIN_VARIANTS.get(G.NAYIN[i], []) else G.NAYIN[i] for i in range(30)] if len(t.names('SOUND_NAMES')) == 30 else G.NAYIN, 'SOUND_NAMES')
    table(ctx, RULE, 'SixtyCycle::get_ten', C, lambda i: nm(t.m(t.sixty(i), 'get_ten')), lambda i: G.xun_of(i)[0], u'旬 (decade head)', cn, fn_site(p, 'SixtyCycle::get_ten'))
    table(ctx, RULE, 'SixtyCycle::get_extra_earth_branches', C, lambda i: u''.join(nm(b) for b in t.m(t.sixty(i), 'get_extra_earth_branches')), lambda i: G.xun_of(i)[1], u'旬空 (void branches)', cn, fn_site(p, 'SixtyCycle::get_extra_earth_branches'))
    table(ctx, RULE, 'SixtyCycle::get_heaven_stem/earth_branch', C, lambda i: nm(t.m(t.sixty(i), 'get_heaven_stem')) + nm(t.m(t.sixty(i), 'get_earth_branch')), cn, 'pillar = stem + branch', cn)

    # ---- zodiac sign boundaries: SolarDay::get_constellation over every (month, day) of a leap year
    import calendar_oracle as CAL
    md = [(m, d) for m in range(1, 13) for d in range(1, CAL.month_days(2000, m) + 1)]

    def const_of(x):
        day = I.call('SolarDay::from_ymd', [2000, x[0], x[1]])
        return nm(t.m(day, 'get_constellation'))
    table(ctx, RULE, 'SolarDay::get_constellation', md, const_of, lambda x: G.constellation(x[0], x[1]), 'zodiac sign boundaries over all 366 month-days', lambda x: '%d-%d' % x, fn_site(p, 'SolarDay::get_constellation'))
    names_eq('CONSTELLATION_NAMES', [n for n, _, _ in G.CONSTELLATION_START], 'CONSTELLATION_NAMES')

    # ---- foetus spirit tables
    fd = G.fetus_day_table()

    def fetus(i):
        f = I.call('FetusDay::new', [t.sixty(i)])
        side = nm(t.m(f, 'get_side'))
        return (nm(t.m(f, 'get_fetus_heaven_stem')), nm(t.m(f, 'get_fetus_earth_branch')), side, nm(t.m(f, 'get_direction')))

    def fetus_oracle(i):
        side, d = fd[cn(i)]
        return (G.FETUS_STEM[cn(i)[0]], G.FETUS_BRANCH[cn(i)[1]], side, d)
    table(ctx, RULE, 'FetusDay::new', C, fetus, fetus_oracle, u'逐日胎神: stem rhyme, branch rhyme, inner/outer side, direction', cn, fn_site(p, 'FetusDay::new'))

    def fetus_name(i):
        return I.method(I.call('FetusDay::new', [t.sixty(i)]), 'get_name')

    def fetus_name_oracle(i):
        side, d = fd[cn(i)]
        a, b = G.FETUS_STEM[cn(i)[0]], G.FETUS_BRANCH[cn(i)[1]]
        return None  # display format is checked for consistency only (see below)
    # display string must mention side and direction consistently with the getters
    def fetus_display(i):
        f = I.call('FetusDay::new', [t.sixty(i)])
        s = I.method(f, 'get_name')
        side, d = fd[cn(i)]
        return (side in s, s.endswith(d) or (u'正' + d) in s or d in s)
    table(ctx, RULE, 'FetusDay::get_name', C, fetus_display, lambda i: (True, True), 'display string carries the same side and direction', cn)
    # 逐月胎神: regular months only
    table(ctx, RULE, 'FetusMonth::from_index', range(12), lambda i: nm(t.mk('FetusMonth', i)), lambda i: G.FETUS_MONTH[i], u'逐月胎神', str)

    # the views hand their OWN pillar to the table (the sexagenary day inside a 23:00 hour carries the next day's pillar)
    from pete import SV, RInt, CellV, NONE, Opt, Symbolic
    from dayline import DayLine
    dlv = DayLine(I, pillar0=49, week0=1)

    def fetus_via_scd(i):
        # stored pillar i, civil day whose own pillar is i-1 (the 23:00 situation)
        n = 2451545
        while (n + 49) % 60 != (i - 1) % 60:
            n += 1
        d = SV('SixtyCycleDay', {'solar_day': dlv.day(n), 'month': SV('SixtyCycleMonth', {'year': SV('SixtyCycleYear', {'year': RInt(2000, 'isize')}), 'month': t.sixty(2)}), 'day': t.sixty(i)})
        f = t.m(d, 'get_fetus_day')
        return I.method(f, 'get_name')
    table(ctx, RULE, 'SixtyCycleDay::get_fetus_day', C, fetus_via_scd, lambda i: I.method(I.call('FetusDay::new', [t.sixty(i)]), 'get_name'), 'the sexagenary-day view passes its own day pillar to the foetus table', cn, fn_site(p, 'FetusDay::from_sixty_cycle_day'))

    def fetus_via_lunar(i):
        n = 2451545
        while (n + 49) % 60 != i:
            n += 1
        lm = SV('LunarMonth', {'year': SV('LunarYear', {'year': RInt(2000, 'isize')}), 'month': RInt(1, 'usize'), 'leap': False, 'day_count': RInt(30, 'usize'), 'index_in_year': RInt(0, 'usize'),
                               'first_julian_day': SV('JulianDay', {'day': float(n)})})
        ld = SV('LunarDay', {'month': lm, 'day': RInt(1, 'usize'), 'solar_day': CellV(NONE, 'refcell'), 'sixty_cycle_day': CellV(NONE, 'refcell')})
        return I.method(t.m(ld, 'get_fetus_day'), 'get_name')
    table(ctx, RULE, 'LunarDay::get_fetus_day', C, fetus_via_lunar, lambda i: I.method(I.call('FetusDay::new', [t.sixty(i)]), 'get_name'), 'the lunar-day view passes its own day pillar to the foetus table', cn, fn_site(p, 'FetusDay::from_lunar_day'))
    for k_ in [k for k in list(I.overrides) if k.split('::')[0] in ('SolarDay', 'LunarDay', 'SolarTerm', 'JulianDay')]:
        del I.overrides[k_]

    # monthly foetus spirit from a lunar month: every regular month has one (also the month sharing its number with the year's leap month); a leap month has none
    def fetus_month(x):
        y, m_ = x
        L = py(t.m(I.call('LunarYear::from_year', [y]), 'get_leap_month'))
        lm = SV('LunarMonth', {'year': SV('LunarYear', {'year': RInt(y, 'isize')}), 'month': RInt(abs(m_), 'usize'), 'leap': m_ < 0, 'day_count': RInt(30, 'usize'),
                               'index_in_year': RInt(abs(m_) - 1 + (1 if (m_ < 0 or (L and abs(m_) > L)) else 0), 'usize'), 'first_julian_day': SV('JulianDay', {'day': 0.0})})
        r = t.m(lm, 'get_fetus')
        return nm(r.v) if r.some else None
    fm_dom = [(2023, m_) for m_ in list(range(1, 13)) + [-2]] + [(2020, m_) for m_ in (3, 4, -4, 5)] + [(2024, m_) for m_ in range(1, 13)]
    table(ctx, RULE, 'FetusMonth::from_lunar_month', fm_dom, fetus_month, lambda x: None if x[1] < 0 else G.FETUS_MONTH[x[1] - 1], u'逐月胎神 from a lunar month (leap months have none; the regular twin of a leap month has one)', str, fn_site(p, 'FetusMonth::from_lunar_month'))

    # ---- 28 mansions / nine stars / twelve spirits / minor ren
    M = range(28)
    mn = lambda i: G.MANSIONS[i]
    ms = lambda i: t.mk('TwentyEightStar', i)
    table(ctx, RULE, 'TwentyEightStar::get_zone', M, lambda i: nm(t.m(ms(i), 'get_zone')), lambda i: G.MANSION_ZONE[i], 'mansion zone', mn)
    table(ctx, RULE, 'TwentyEightStar::get_seven_star', M, lambda i: nm(t.m(ms(i), 'get_seven_star')), lambda i: G.MANSION_LUMINARY[i], 'mansion luminary', mn, fn_site(p, 'TwentyEightStar::get_seven_star'))
    table(ctx, RULE, 'TwentyEightStar::get_animal', M, lambda i: nm(t.m(ms(i), 'get_animal')), lambda i: G.MANSION_ANIMAL[i], 'mansion animal', mn)
    table(ctx, RULE, 'TwentyEightStar::get_land', M, lambda i: nm(t.m(ms(i), 'get_land')), lambda i: G.MANSION_LAND[mn(i)], 'mansion land (nine fields)', mn, fn_site(p, 'TwentyEightStar::get_land'))
    table(ctx, RULE, 'TwentyEightStar::get_luck', M, lambda i: nm(t.m(ms(i), 'get_luck')), lambda i: G.MANSION_LUCK[mn(i)], 'mansion luck', mn, fn_site(p, 'TwentyEightStar::get_luck'))
    table(ctx, RULE, 'Zone::get_beast', range(4), lambda i: (nm(t.mk('Zone', i)), nm(t.m(t.mk('Zone', i), 'get_beast')), nm(t.m(t.mk('Zone', i), 'get_direction'))),
          lambda i: ((lambda z: (z, G.ZONE_BEAST[z], z))([u'东', u'北', u'西', u'南'][i])), 'zone beast / direction', str)
    table(ctx, RULE, 'Land::get_direction', range(9), lambda i: (lambda l: G.LAND_DIRECTION.get(nm(l)) == nm(t.m(l, 'get_direction')))(t.mk('Land', i)), lambda i: True, 'nine fields direction', str)
    N = range(9)
    ns = lambda i: t.mk('NineStar', i)
    table(ctx, RULE, 'NineStar::get_color/element/direction/dipper', N,
          lambda i: (nm(ns(i)), t.m(ns(i), 'get_color'), nm(t.m(ns(i), 'get_element')), nm(t.m(ns(i), 'get_direction')), nm(t.m(ns(i), 'get_dipper'))),
          lambda i: (G.NINE_STAR[i][0], G.NINE_STAR[i][1], G.NINE_STAR[i][2], G.LUOSHU[i], G.DIPPER[i]), 'nine star colour / element / Luoshu direction / dipper', str, fn_site(p, 'NineStar::get_element'))
    table(ctx, RULE, 'TwelveStar::get_ecliptic', range(12), lambda i: nm(t.m(t.mk('TwelveStar', i), 'get_ecliptic')), lambda i: u'黄道' if G.TWELVE_STAR[i] in G.YELLOW else u'黑道', 'yellow / black path', lambda i: G.TWELVE_STAR[i], fn_site(p, 'TwelveStar::get_ecliptic'))
    table(ctx, RULE, 'Ecliptic::get_luck', range(2), lambda i: (nm(t.mk('Ecliptic', i)), nm(t.m(t.mk('Ecliptic', i), 'get_luck'))), lambda i: [(u'黄道', u'吉'), (u'黑道', u'凶')][i], 'path luck', str)
    table(ctx, RULE, 'MinorRen', range(6), lambda i: (lambda r: (nm(r), nm(t.m(r, 'get_element')), nm(t.m(r, 'get_luck'))))(t.mk('MinorRen', i)), lambda i: G.MINOR_REN[i], 'minor Ren name / element / luck', str, fn_site(p, 'MinorRen::get_element'))

    # ---- PengZu taboos are keyed by stem / branch
    table(ctx, RULE, 'PengZu::from_sixty_cycle', C, lambda i: (lambda z: (nm(t.m(z, 'get_peng_zu_heaven_stem'))[0], nm(t.m(z, 'get_peng_zu_earth_branch'))[0]))(I.call('PengZu::from_sixty_cycle', [t.sixty(i)])),
          lambda i: (cn(i)[0], cn(i)[1]), u'彭祖百忌 sentence starts with the day stem / branch', cn)

    # ---- eight-character derived pillars (month/day pillars range over all 60)
    def ec(y, m_, d, h):
        return I.call('EightChar::from_sixty_cycle', [t.sixty(y), t.sixty(m_), t.sixty(d), t.sixty(h)])
    table(ctx, RULE, 'EightChar::get_fetal_origin', C, lambda i: nm(t.m(ec(0, i, 0, 0), 'get_fetal_origin')), lambda i: G.STEMS[(i + 1) % 10] + G.BRANCHES[(i + 3) % 12], u'胎元 = month stem +1, branch +3', cn, fn_site(p, 'EightChar::get_fetal_origin'))
    table(ctx, RULE, 'EightChar::get_fetal_breath', C, lambda i: nm(t.m(ec(0, 0, i, 0), 'get_fetal_breath')), lambda i: G.FIVE_COMBINE[cn(i)[0]][0] + G.SIX_COMBINE[cn(i)[1]][0], u'胎息 = five-combination stem + six-combination branch of the day pillar', cn, fn_site(p, 'EightChar::get_fetal_breath'))

    # ---- 命宫 / 身宫 (own sign / body sign): palace found by the classical counting, its stem by the Five-Tigers rule of the year stem
    def palace_pillar(ys, b):
        k = (b - 2) % 12                       # the palace's place in the year's month sequence 寅..丑
        return G.STEMS[((ys % 5 + 1) * 2 + k) % 10] + G.BRANCHES[b]

    def own_orc(x):
        ys, mi, hi = x
        pos = 0                                # 子上起正月, 逆数至生月
        for _ in range((mi - 2) % 12):
            pos = (pos - 1) % 12
        h = hi                                 # 生月宫起生时, 顺数至卯
        while h != 3:
            h = (h + 1) % 12
            pos = (pos + 1) % 12
        return palace_pillar(ys, pos)

    def body_orc(x):
        ys, mi, hi = x
        pos = 0                                # 子上起正月, 顺数至生月
        for _ in range((mi - 2) % 12):
            pos = (pos + 1) % 12
        h = hi                                 # 生月宫起生时, 逆数至酉
        while h != 9:
            h = (h + 1) % 12
            pos = (pos - 1) % 12
        return palace_pillar(ys, pos)
    SG = [(ys, mi, hi) for ys in range(10) for mi in range(12) for hi in range(12)]
    sgf = lambda x: u'year stem %s, month branch %s, hour branch %s' % (G.STEMS[x[0]], G.BRANCHES[x[1]], G.BRANCHES[x[2]])
    table(ctx, RULE, 'EightChar::get_own_sign', SG, lambda x: nm(t.m(ec(x[0], x[1], 0, x[2]), 'get_own_sign')), own_orc,
          u'命宫: month counted backwards from 子, hour forwards to 卯; stem of the palace by the Five-Tigers rule', sgf, fn_site(p, 'EightChar::get_own_sign'))
    table(ctx, RULE, 'EightChar::get_body_sign', SG, lambda x: nm(t.m(ec(x[0], x[1], 0, x[2]), 'get_body_sign')), body_orc,
          u'身宫: month counted forwards from 子, hour backwards to 酉; stem of the palace by the Five-Tigers rule', sgf, fn_site(p, 'EightChar::get_body_sign'))

    # ---- a value built BY NAME is the same cycle element as the one built by index: same position, same cycle length, same successor
    cyc = sorted(n_ for n_, st in p.structs.items() if [f for f, ty_ in st['fields']] == ['parent'] and st['fields'][0][1].replace(' ', '') == 'LoopTyme')
    for ty_ in cyc:
        if p.find_method(ty_, 'from_name') is None or p.find_method(ty_, 'from_index') is None:
            continue

        def by_name(ty_=ty_):
            v0 = I.call('%s::from_index' % ty_, [0])
            size = len(v0.f['parent'].f['names'])
            names_ = [t.name(I.call('%s::from_index' % ty_, [k])) for k in range(size)]
            if len(set(names_)) != len(names_):
                return None            # repeated names: by-name lookup cannot be the inverse (judged in C11)
            for k in range(size):
                w = I.call('%s::from_name' % ty_, [names_[k]])
                if t.idx(w) != k or len(w.f['parent'].f['names']) != size or t.idx(t.m(w, 'next', 1)) != (k + 1) % size or t.name(t.m(w, 'next', 1)) != names_[(k + 1) % size]:
                    return '%s::from_name(%s) is not element %d of the %d-cycle (index %d, cycle length %d, successor %s)' % (ty_, names_[k], k, size, t.idx(w), len(w.f['parent'].f['names']), t.name(t.m(w, 'next', 1)))
            return None
        ctx.guard('PETE-TABLE', 'BY-NAME:%s' % ty_, by_name, 12, {'type': ty_})

    ctx.not_decided.append('nothing inside the statement: every listed attribute is a finite table')
    ctx.assumptions.append('the oracle tables in /verif/oracles/ganzhi.py are correct transcriptions of the classical rules quoted next to them')
    return ('PETE finite-table evaluation of every stem/branch/cycle attribute getter from the syntax tree, over the whole index domain, '
            'compared with name-level first-principles oracles; involution and inverse-pair laws checked exhaustively')
