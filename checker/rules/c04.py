# -*- coding: utf-8 -*-
"""C04 — month numbers and the leap month follow the no-major-term rule: table necessary conditions only."""
from rules import c03


def run(ctx):
    return c03.run(ctx, 'C04')
