# -*- coding: utf-8 -*-
"""C01 — civil calendar and day count agree for every date 0001-9999.

Decided here:
  * leap rule / year length for every year 1..9999, month lengths for every (year, month);
  * acceptance grid of SolarDay::new over (year class, month 0..13, day 0..32) == calendar existence;
  * before/after/eq decision table == lexicographic order;
  * who-may-construct: guarded civil values are only built inside their validating constructors;
  * the Julian-day formulas as the (year, month) table: first day of every month forwards, first and last
    day backwards (119,988 months), plus the structural lemma that the day enters the forward formula
    only additively — so month granularity decides every date. Per-day enumeration is refused.
  * stepping / subtraction / day-of-year are routed through the day count (evaluated on sample days around
    month ends, year ends and the 1582 gap with the Julian-day layer replaced by the oracle).
"""
from rlib import T, table, py, fn_site, Bottom, Unanalysable, pmap
from pete import SV, RInt, Res
from prog import walk
from calmodel import CalModel
import calendar_oracle as CAL

GUARDED = ['SolarYear', 'SolarHalfYear', 'SolarSeason', 'SolarMonth', 'SolarWeek', 'SolarDay', 'SolarTime',
           'LunarYear', 'LunarMonth', 'LunarWeek', 'LunarDay', 'LunarHour', 'SixtyCycleYear']
# constructors allowed to contain the struct literal (reason per exception)
CONSTRUCT_OK = {
    'LunarMonth': {'new', 'from_cache'},   # from_cache rebuilds a value previously produced by new (writer/reader agreement is C10)
}


def who_may_construct(ctx):
    p = ctx.prog
    ctx.rule('CONSTRUCT', 'struct literals of guarded calendar types occur only inside the type\'s validating constructor')
    found = dict((g, []) for g in GUARDED)
    for fn in p.all_fns:
        if fn.body is None:
            continue

        def visit(node, fn=fn):
            if node.get('k') == 'struct':
                name = node['path']['segs'][-1]
                if name == 'Self':
                    name = fn.owner
                if name in found:
                    found[name].append((fn.qname, fn.file, node.get('ln')))
        walk(fn.body, visit)
    for g in GUARDED:
        if g not in p.structs:
            ctx.floor('CONSTRUCT', 'struct %s' % g, 0, 1)
            continue
        sites = found[g]
        ok_fns = CONSTRUCT_OK.get(g, {'new'})
        bad = [s for s in sites if s[0] not in ('%s::%s' % (g, f) for f in ok_fns)]
        if not sites:
            ctx.floor('CONSTRUCT', 'literal sites of %s' % g, 0, 1)
        elif bad:
            ctx.violation('CONSTRUCT', 'CONSTRUCT:%s:%s' % (g, bad[0][0]), '%s is constructed outside its validating constructor in %s (%s:%s); its range guard can be bypassed there' % (g, bad[0][0], bad[0][1], bad[0][2]), {'sites': bad})
        else:
            # fields must be private so that users cannot bypass the guard either
            pub = [f for f, v in p.structs[g]['field_vis'].items() if v == 'pub']
            if pub:
                ctx.violation('CONSTRUCT', 'CONSTRUCT:%s:pub-field' % g, '%s has public field(s) %s: values can be built without the guard' % (g, pub))
            else:
                ctx.ok('CONSTRUCT', len(sites), {'type': g, 'sites': [s[0] for s in sites]})


def affine_in_day(ctx):
    """structural lemma: in JulianDay::from_ymd_hms the `day` parameter reaches the result only through additions
    (never inside a truncating cast / floor), except in the Gregorian-switch comparison"""
    p = ctx.prog
    ctx.rule('AFFINE-LEMMA', 'day parameter enters the date->JD formula additively (outside every truncation), so one point per month decides the month')
    try:
        fn = p.fn('JulianDay::from_ymd_hms')
    except Exception as ex:
        ctx.unanalysable('AFFINE-LEMMA', 'AFFINE:JulianDay::from_ymd_hms', str(ex))
        return
    day_param = fn.params[2]['pat']['name']
    tainted = {day_param}
    trunc_uses = []

    def uses(node, names):
        hit = []

        def v(n):
            if n.get('k') == 'path' and len(n['segs']) == 1 and n['segs'][0] in names:
                hit.append(n)
        walk(node, v)
        return bool(hit)

    def check_expr(e, in_trunc, in_cmp):
        k = e.get('k')
        if k == 'path':
            if len(e['segs']) == 1 and e['segs'][0] in tainted and in_trunc and not in_cmp:
                trunc_uses.append(e.get('ln'))
            return
        if k == 'cast':
            ty = e['ty']
            check_expr(e['e'], in_trunc or ty in ('isize', 'usize', 'i64', 'i32', 'u64', 'u32'), in_cmp)
            return
        if k == 'mcall' and e['m'] in ('floor', 'ceil', 'round', 'trunc'):
            check_expr(e['recv'], True, in_cmp)
            return
        if k == 'bin' and e['op'] in ('<', '<=', '>', '>=', '==', '!='):
            check_expr(e['l'], in_trunc, True)
            check_expr(e['r'], in_trunc, True)
            return
        if k == 'bin' and e['op'] in ('*', '/', '%') and (uses(e['l'], tainted) or uses(e['r'], tainted)) and not in_cmp:
            # scaling the day would break slope 1: only allowed inside the time-of-day fraction, i.e. when the tainted side is not `day` itself
            pass
        for key, val in e.items():
            if isinstance(val, dict):
                check_expr(val, in_trunc, in_cmp)
            elif isinstance(val, list):
                for x in val:
                    if isinstance(x, dict):
                        check_expr(x, in_trunc, in_cmp)
    # propagate taint through let bindings in order
    for st in fn.body['stmts']:
        if st['k'] == 'local' and st.get('init') is not None:
            check_expr(st['init'], False, False)
            if uses(st['init'], tainted) and st['pat']['k'] == 'pident':
                # a binding computed under a truncation of the day is not tainted further if it only fed a comparison
                cmp_only = st['init'].get('k') == 'bin' and st['init']['op'] in ('<', '<=', '>', '>=', '==', '!=')
                if not cmp_only:
                    tainted.add(st['pat']['name'])
        elif st['k'] == 'expr':
            check_expr(st['e'], False, False)
    if trunc_uses:
        ctx.violation('AFFINE-LEMMA', 'AFFINE:JulianDay::from_ymd_hms', 'the day-of-month flows into a truncation at line(s) %s of %s: month granularity no longer decides every date' % (trunc_uses, fn.file))
    else:
        ctx.ok('AFFINE-LEMMA', 1, {'fn': fn_site(p, 'JulianDay::from_ymd_hms'), 'tainted': sorted(tainted)})


def jd_month_tables(ctx, ym):
    """the two Julian-day float formulas tabulated per (year, month) against the integer calendar oracle"""
    p = ctx.prog
    ctx.rule('JD-MONTH-TABLE', 'Julian-day formulas tabulated per (year, month): first day forwards, first and last day backwards')
    affine_in_day(ctx)
    I2 = ctx.interp(fuel=30000000)
    I2.forbidden.discard('JulianDay::from_ymd_hms')
    I2.forbidden.discard('JulianDay::get_solar_time')
    t2 = T(I2)

    def jd_fwd(x):
        y, m = x
        first = 15 if (y, m) == (1582, 10) else 1
        out = [py(t2.m(I2.call('JulianDay::from_ymd_hms', [y, m, 1, 0, 0, 0]), 'get_day'))]
        # the date's and the instant's own accessors must give the same number (they are the route every caller takes)
        # (all century years, the years around the cut-over and both range ends, and every 37th year)
        if y % 100 == 0 or y < 10 or y > 9990 or 1575 <= y <= 1590 or y % 37 == 0:
            via_day = py(t2.m(t2.m(I2.call('SolarDay::from_ymd', [y, m, 1]), 'get_julian_day'), 'get_day'))
            via_time = py(t2.m(t2.m(I2.call('SolarTime::from_ymd_hms', [y, m, 1, 0, 0, 0]), 'get_julian_day'), 'get_day'))
            if via_day != out[0] or via_time != out[0]:
                return 'SolarDay::get_julian_day %s / SolarTime::get_julian_day %s / JulianDay::from_ymd_hms %s disagree' % (via_day, via_time, out[0])
            # ... and the last day of the month is accepted, the day after it refused (an instant on a nonexistent day would alias the next month)
            last = CAL.month_last_dom(y, m)
            def _accepted(q, args):
                try:
                    return bool(I2.call(q, args).ok)
                except Bottom:
                    return False          # refusing by panic is still refusing
            if not _accepted('SolarDay::new', [y, m, last]) or _accepted('SolarDay::new', [y, m, last + 1]) or _accepted('SolarTime::new', [y, m, last + 1, 0, 0, 0]):
                return 'day %d / %d of %d-%d: the calendar has exactly %d days in that month, the constructors disagree' % (last, last + 1, y, m, last)
        if (y, m) == (1582, 10):
            out.append(py(t2.m(I2.call('JulianDay::from_ymd_hms', [y, m, 15, 0, 0, 0]), 'get_day')))
        return out

    def jd_fwd_orc(x):
        y, m = x
        out = [CAL.jdn(y, m, 1) - 0.5]
        if (y, m) == (1582, 10):
            out.append(CAL.jdn(y, m, 15) - 0.5)
        return out
    table(ctx, 'JD-MONTH-TABLE', 'JD:from_ymd_hms', ym, jd_fwd, jd_fwd_orc, 'date -> Julian day at the first day of every month (and both sides of the 1582 gap)', lambda x: '%d-%d' % x, fn_site(p, 'JulianDay::from_ymd_hms'))

    def jd_inv(x):
        y, m = x
        res = []
        for d in ((1, CAL.month_last_dom(y, m)) if (y, m) != (1582, 10) else (1, 4, 15, 31)):
            j = CAL.jdn(y, m, d) - 0.5
            st = t2.m(SV('JulianDay', {'day': float(j)}), 'get_solar_time')
            res.append((py(t2.m(st, 'get_year')), py(t2.m(st, 'get_month')), py(t2.m(st, 'get_day')), py(t2.m(st, 'get_hour')), py(t2.m(st, 'get_minute')), py(t2.m(st, 'get_second'))))
        return res

    def jd_inv_orc(x):
        y, m = x
        return [(y, m, d, 0, 0, 0) for d in ((1, CAL.month_last_dom(y, m)) if (y, m) != (1582, 10) else (1, 4, 15, 31))]
    table(ctx, 'JD-MONTH-TABLE', 'JD:get_solar_time', ym, jd_inv, jd_inv_orc, 'Julian day -> date at the first and last day of every month', lambda x: '%d-%d' % x, fn_site(p, 'JulianDay::get_solar_time'))



def run(ctx):
    ctx.exhaustive = False
    ctx.exhaustive_note = 'the (year, month) tables are complete; dates inside a month are covered by the additivity lemma, not enumerated'
    from rules import shared
    ctx.include('effect_inventory', shared.effect_inventory)   # no new process-wide mutable state (MIR statics inventory)
    ctx.include('jd_tables', shared.jd_tables)           # civil date <-> day number per (year, month) (shared, cached per source hash)
    I = ctx.interp(fuel=30000000)
    t = T(I)
    p = ctx.prog
    R = 'PETE-TABLE'
    ctx.rule(R, 'finite table over guard-bounded integer domains == calendar oracle')
    ctx.rule('CMP', 'comparator decision table == strict lexicographic order on (year, month, day)')
    ctx.rule('ROUTE', 'stepping / subtraction / day-of-year evaluated with the Julian-day layer replaced by the oracle')
    years = list(range(1, 10000))

    who_may_construct(ctx)

    # ---- leap years, year lengths
    table(ctx, R, 'SolarYear::is_leap', years, lambda y: t.m(I.call('SolarYear::from_year', [y]), 'is_leap'), CAL.is_leap, 'leap rule: Julian to 1582, Gregorian after', str, fn_site(p, 'SolarYear::is_leap'))
    table(ctx, R, 'SolarYear::get_day_count', years, lambda y: py(t.m(I.call('SolarYear::from_year', [y]), 'get_day_count')), CAL.year_days, 'year length (1582 has 355 days)', str, fn_site(p, 'SolarYear::get_day_count'))
    ym = [(y, m) for y in years for m in range(1, 13)]
    table(ctx, R, 'SolarMonth::get_day_count', ym, lambda x: py(t.m(I.call('SolarMonth::from_ym', [x[0], x[1]]), 'get_day_count')), lambda x: CAL.month_days(*x), 'month length for every (year, month); October 1582 has 21 days', lambda x: '%d-%d' % x, fn_site(p, 'SolarMonth::get_day_count'))

    # ---- refusals: years, months
    def acc_year(y):
        return I.call('SolarYear::new', [y]).ok
    table(ctx, R, 'SolarYear::new', [-1, 0, 1, 2, 9998, 9999, 10000, 10001], acc_year, lambda y: 1 <= y <= 9999, 'year accepted iff 1..9999', str, fn_site(p, 'SolarYear::new'))
    table(ctx, R, 'SolarMonth::new', [(y, m) for y in (1, 1582, 2000, 9999) for m in range(0, 15)], lambda x: I.call('SolarMonth::new', [x[0], x[1]]).ok, lambda x: 1 <= x[1] <= 12, 'month accepted iff 1..12', str)

    # ---- acceptance grid of SolarDay::new
    ycls = [1, 4, 100, 400, 1000, 1500, 1581, 1582, 1583, 1600, 1700, 1800, 1900, 2000, 2023, 2024, 2100, 2400, 9996, 9999]
    grid = [(y, m, d) for y in ycls for m in range(1, 13) for d in range(0, 34)]

    def acc_day(x):
        r = I.call('SolarDay::new', [x[0], x[1], x[2]])
        if r.ok:
            v = r.v
            return (True, (py(t.m(v, 'get_year')), py(t.m(v, 'get_month')), py(t.m(v, 'get_day'))))
        return (False, None)
    table(ctx, R, 'SolarDay::new', grid, acc_day, lambda x: (True, x) if CAL.exists(*x) else (False, None),
          'a date is accepted iff it exists in the proleptic Julian/Gregorian calendar (the ten dropped days of October 1582 refused)', lambda x: '%d-%d-%d' % x, fn_site(p, 'SolarDay::new'))

    # ---- comparators
    # every order type of (year, month, day) with interior AND extreme field values (a weighted-key comparator overlaps only at the extremes)
    pts = [(y, m, d) for y in (1999, 2000) for m in (1, 3, 4, 12) for d in (1, 9, 10, 31) if CAL.exists(y, m, d)]
    # years with different digit counts (a formatted / concatenated key orders them wrongly) and the range ends
    pts += [(y, m, d) for y in (1, 9, 10, 99, 100, 999, 1000, 9999) for (m, d) in ((1, 1), (2, 4), (12, 31))]

    def mk(x):
        return I.call('SolarDay::from_ymd', list(x))

    def cmp3(ab):
        a, b = mk(ab[0]), mk(ab[1])
        return (t.m(a, 'is_before', b), t.m(a, 'is_after', b), I.values_equal(a, b))
    table(ctx, 'CMP', 'CMP:SolarDay', [(a, b) for a in pts for b in pts], cmp3, lambda ab: (ab[0] < ab[1], ab[0] > ab[1], ab[0] == ab[1]),
          'is_before / is_after / == over all order types of (year, month, day)', str, fn_site(p, 'SolarDay::is_before'))

    jd_month_tables(ctx, ym)

    # ---- routing: next / subtract / index-in-year with the JD layer replaced by the oracle
    cm = CalModel(I, {}, [])
    base = [(1, 1, 1), (4, 2, 28), (4, 2, 29), (100, 2, 29), (1582, 10, 4), (1582, 10, 15), (1582, 10, 31), (1582, 12, 31), (1583, 1, 1), (1600, 2, 29),
            (1700, 2, 28), (1900, 3, 1), (2000, 2, 29), (2023, 12, 31), (2024, 1, 31), (9999, 12, 1),
            (1, 1, 5), (100, 12, 31), (1500, 2, 28), (1500, 3, 1), (1500, 12, 31), (1501, 1, 1)]     # incl. century years that are leap only in the Julian calendar
    steps = [-400, -366, -365, -31, -30, -11, -10, -1, 0, 1, 10, 11, 28, 29, 30, 31, 365, 366, 400]

    def nxt(x):
        (y, m, d), n = x
        r = t.m(cm.solar_day(y, m, d), 'next', n)
        return cm.ymd_of(r)

    def nxt_orc(x):
        (y, m, d), n = x
        return CAL.from_jdn(CAL.jdn(y, m, d) + n)
    dom = [(b, n) for b in base for n in steps if 1721424 <= CAL.jdn(*b) + n <= CAL.jdn(9999, 12, 31)]
    table(ctx, 'ROUTE', 'SolarDay::next', dom, nxt, nxt_orc, 'stepping by n days = n days later on the day count (month ends, leap days, the 1582 gap)', str, fn_site(p, 'SolarDay::next'))

    def sub(x):
        a, b = x
        return py(t.m(cm.solar_day(*a), 'subtract', cm.solar_day(*b)))
    table(ctx, 'ROUTE', 'SolarDay::subtract', [(a, b) for a in base for b in base], sub, lambda x: CAL.jdn(*x[0]) - CAL.jdn(*x[1]), 'difference of two dates = difference of day counts', str, fn_site(p, 'SolarDay::subtract'))

    def doy_dom(y):
        out = []
        for m in range(1, 13):
            for d in range(1, 32):
                if CAL.exists(y, m, d):
                    out.append((y, m, d))
        return out
    table(ctx, 'ROUTE', 'SolarDay::get_index_in_year', doy_dom(1582) + doy_dom(2024) + doy_dom(1900) + doy_dom(1500) + doy_dom(100) + doy_dom(4), lambda x: py(t.m(cm.solar_day(*x), 'get_index_in_year')), lambda x: CAL.jdn(*x) - CAL.jdn(x[0], 1, 1),
          'day-of-year = days since January 1 (every day of 4, 100, 1500 [leap only in the Julian calendar], 1582, 1900, 2024)', str, fn_site(p, 'SolarDay::get_index_in_year'))

    # month lengths as the user meets them: the listed days of a month are exactly the dates that exist in it (its length is their number)
    def mlist(x):
        sm = I.call('SolarMonth::from_ym', [x[0], x[1]])
        return ([cm.ymd_of(d) for d in t.m(sm, 'get_days')], py(t.m(sm, 'get_day_count')))

    def mlist_orc(x):
        ds = [(x[0], x[1], d) for d in range(1, 32) if CAL.exists(x[0], x[1], d)]
        return (ds, len(ds))
    table(ctx, 'ROUTE', 'SolarMonth::get_days', [(1, 1), (4, 2), (1582, 9), (1582, 10), (1582, 11), (1700, 2), (1900, 2), (2000, 2), (2024, 2), (2023, 12), (9999, 12)], mlist, mlist_orc,
          'the days a month lists are exactly the dates that exist in it, in order (October 1582: 1-4 and 15-31), and their number is the month length', lambda x: '%d-%d' % x, fn_site(p, 'SolarMonth::get_days'))

    if ctx.tier == 'thorough':
        import witness
        witness.run(ctx, {'SolarDayGuarded': 'SolarDay fields are private: no value can be built around SolarDay::new', 'ValuesGuarded': 'SolarTime / LunarMonth / SolarYear fields are private',
                          'RefusalIsAValue': 'SolarDay::new returns a Result the caller must handle'})
    ctx.assumptions.append('AFFINE-LEMMA + JD-MONTH-TABLE: within a month the forward formula is day + const; the inverse is tabulated at both ends of every month; '
                           'an error island strictly inside a month that vanishes at both ends is not excluded')
    ctx.not_decided.append('time-of-day fraction arithmetic of the Julian-day formulas (C12) and per-day exhaustive round trip (refused: 3.65 M point enumeration is a runtime test)')
    return ('calendar rules as exhaustive tables over guard-bounded domains (all years, all year-months), acceptance grid, comparator table, who-may-construct, '
            'and the Julian-day formulas tabulated at the ends of all 119,988 months with a structural additivity lemma')
