# -*- coding: utf-8 -*-
"""C11 — stepping by n is a consistent group action on every time unit and cycle."""
import re
from rlib import T, table, py, fn_site, Bottom, Unanalysable, Opt
from pete import SV, RInt, CellV, NONE
from prog import walk
from calmodel import CalModel, typical_terms, synthetic_months, with_lengths
import calendar_oracle as CAL

# cycle type -> name table, where it is not UPPER_SNAKE(type) + _NAMES (reason)
TABLE_EXCEPTIONS = {
    'MinorRen': 'SIX_STAR_NAMES',          # ren/minor.rs keeps its own SIX_STAR_NAMES (小六壬 六神)
    'SixStar': 'SIX_STAR_NAMES',           # star/six.rs
    'Week': 'WEEK_NAMES',
}


def snake(name):
    return re.sub(r'(?<!^)(?=[A-Z])', '_', name).upper()


def statics_used(fn):
    out = set()

    def v(n):
        if n.get('k') == 'path' and len(n['segs']) == 1 and n['segs'][0].isupper():
            out.add(n['segs'][0])
    if fn is not None and fn.body is not None:
        walk(fn.body, v)
    return out


def run(ctx):
    ctx.exhaustive = False
    ctx.exhaustive_note = 'per-type checks complete over each cycle; carries and lunar stepping on listed sample points'
    from rules import shared
    ctx.include('effect_inventory', shared.effect_inventory)   # no new process-wide mutable state (MIR statics inventory)
    ctx.include('month_records', shared.month_records)   # leap table, solstice anchor, month memo, memo cells (shared, cached per source hash)
    I = ctx.interp(fuel=80000000)
    t = T(I)
    p = ctx.prog
    ctx.rule('SIB-CYCLE', 'every cycle type: wired to its own name table (both constructors), Euclidean index, next() is a group action, index<->name inverse, unknown names refused')
    ctx.rule('PETE-TABLE', 'finite table vs oracle')
    ctx.rule('CARRY', 'linear units: stepping by n = floor-carry arithmetic wherever the result is accepted')
    ctx.rule('PETE-SCENARIO', 'lunar month / day / hour stepping evaluated on a scenario calendar')
    ctx.rule('TABLES-NAMES', 'name tables have no duplicate entries where a by-name constructor exists')

    # ---- modular helper
    def idxof(x):
        i, n = x
        return py(I.method(I.call('AbstractCulture::new', []), 'index_of', i, n))
    table(ctx, 'PETE-TABLE', 'AbstractCulture::index_of', [(i, n) for n in (1, 2, 3, 5, 7, 9, 10, 12, 28, 60) for i in range(-3 * n - 1, 3 * n + 2)], idxof, lambda x: x[0] % x[1],
          'index_of is the Euclidean remainder', str, fn_site(p, 'AbstractCulture::index_of'))

    # ---- plain enums with by-code / by-name constructors (gender, polarity, side, festival kind, hidden-stem kind)
    from pete import EV
    enums = sorted(n for n in p.enums if p.find_method(n, 'from_name') is not None and all(not v.get('fields') for v in p.enums[n]['variants']))
    ctx.floor('SIB-CYCLE', 'enums with a by-name constructor', len(enums), 5)
    for en in enums:
        def one_enum(en=en):
            vs = [EV(en, v['name'] if isinstance(v, dict) else v) for v in p.enums[en]['variants']]
            names = [py(I.method(v, 'get_name')) for v in vs]
            if len(set(names)) != len(names):
                return '%s: two variants share a name %s, so from_name(get_name(v)) cannot be v' % (en, names)
            for v, nm in zip(vs, names):
                r = I.call('%s::from_name' % en, [nm])
                if not r.ok or r.v != v:
                    return '%s::from_name(%s) is not the variant named so (%s)' % (en, nm, v.var)
                if py(I.method(v, 'to_string')) != nm:
                    return '%s: Display and get_name differ for %s' % (en, v.var)
            if I.call('%s::from_name' % en, [u'不存在的名']).ok or I.call('%s::from_name' % en, [u'']).ok:
                return '%s::from_name accepts an unknown name' % en
            if p.find_method(en, 'from_code') is not None:
                got = []
                for k in range(len(vs)):
                    r = I.call('%s::from_code' % en, [k])
                    if not r.ok:
                        return '%s::from_code(%d) refused though the enum has %d variants' % (en, k, len(vs))
                    got.append(r.v.var)
                if sorted(got) != sorted(v.var for v in vs):
                    return '%s::from_code is not a bijection onto the variants: %s' % (en, got)
                for k in (len(vs), len(vs) + 1, 99):
                    if I.call('%s::from_code' % en, [k]).ok:
                        return '%s::from_code accepts the unknown code %d' % (en, k)
            # the hand-written equality must be identity of variants
            for a in vs:
                for b in vs:
                    if bool(I.values_equal(a, b)) != (a.var == b.var):
                        return '%s: %s == %s evaluates to %s' % (en, a.var, b.var, a.var != b.var)
            return None
        ctx.guard('SIB-CYCLE', 'SIB:enum:%s' % en, one_enum, len(p.enums[en]['variants']) * 4, {'enum': en})

    # ---- cycle types
    cyc = sorted(n for n, s in p.structs.items() if [f for f, ty in s['fields']] == ['parent'] and s['fields'][0][1].replace(' ', '') == 'LoopTyme')
    ctx.floor('SIB-CYCLE', 'cycle types (struct { parent: LoopTyme })', len(cyc), 42)
    tables_seen = {}
    for ty in cyc:
        key = 'SIB:%s' % ty

        def one(ty=ty):
            fi, fnm = p.find_method(ty, 'from_index'), p.find_method(ty, 'from_name')
            if fi is None:
                raise Unanalysable('%s has no from_index' % ty)
            want = TABLE_EXCEPTIONS.get(ty, snake(ty) + '_NAMES')
            st = p.resolve_static(want, fi.file)
            if st is None:
                return '%s: its own name table %s not found' % (ty, want)
            names = py(I.static(want, fi.file))
            size = len(names)
            # wiring is decided semantically: the names the type actually serves must be exactly its own table (whatever helper it goes through)
            served = [t.name(I.call('%s::from_index' % ty, [i])) for i in range(size)]
            if served != names or py(t.m(I.call('%s::from_index' % ty, [0]), 'get_size')) != size:
                return ('%s serves the names %s..., not its own table %s = %s... (wired to another table?) (%s)' % (ty, served[:3], want, names[:3], fn_site(p, ty + '::from_index')), {})
            other = tables_seen.get((st['file'], want))
            if other is not None:
                return '%s and %s share the name table %s' % (ty, other, want)
            tables_seen[(st['file'], want)] = ty
            mk = lambda i: I.call('%s::from_index' % ty, [i])
            for i in range(-size - 1, 2 * size + 2):
                v = mk(i)
                if py(t.m(v, 'get_index')) != i % size or t.name(v) != names[i % size] or py(t.m(v, 'get_size')) != size:
                    return '%s::from_index(%d) -> index %s name %s (expected %d %s)' % (ty, i, py(t.m(v, 'get_index')), t.name(v), i % size, names[i % size])
            for i in (0, 1, size - 1):
                x = mk(i)
                for a in (-size - 1, -1, 0, 1, 2, size, size + 3):
                    xa = t.m(x, 'next', a)
                    if py(t.m(xa, 'get_index')) != (i + a) % size:
                        return '%s::from_index(%d).next(%d) has index %s, expected %d' % (ty, i, a, py(t.m(xa, 'get_index')), (i + a) % size)
                    for b in (-2, 0, 5):
                        if py(t.m(t.m(xa, 'next', b), 'get_index')) != py(t.m(t.m(x, 'next', a + b), 'get_index')):
                            return '%s: next(%d).next(%d) != next(%d)' % (ty, a, b, a + b)
            # the hand-written `==`: the same element (also reached after a whole turn) is equal, elements with different names are not
            for i in sorted(set([0, 1, size // 2, size - 1])):
                x = mk(i)
                if not I.values_equal(x, mk(i)) or not I.values_equal(x, mk(i + size)) or not I.values_equal(t.m(x, 'next', 0), x) or not I.values_equal(t.m(t.m(x, 'next', 5), 'next', -5), x):
                    return '%s: `==` denies that from_index(%d) equals itself (rebuilt / after a whole turn / after next(0) / after next(5).next(-5))' % (ty, i)
                j = (i + 1) % size
                if names[j] != names[i] and I.values_equal(x, mk(j)):
                    return '%s: `==` identifies the different elements %d and %d' % (ty, i, j)
            if fnm is not None:
                for i, nm in enumerate(names):
                    first = names.index(nm)
                    got = py(t.m(I.call('%s::from_name' % ty, [nm]), 'get_index'))
                    if got != first:
                        return '%s::from_name(%s) -> %s, expected first match %d' % (ty, nm, got, first)
                try:
                    I.call('%s::from_name' % ty, [u'不存在的名'])
                    return '%s::from_name accepts an unknown name' % ty
                except Bottom:
                    pass
            return None
        ctx.guard('SIB-CYCLE', key, one, 1, {'type': ty})

        # duplicate names (index -> name -> index not the identity)
        def dup(ty=ty):
            fi, fnm = p.find_method(ty, 'from_index'), p.find_method(ty, 'from_name')
            if fnm is None:
                return None
            want = TABLE_EXCEPTIONS.get(ty, snake(ty) + '_NAMES')
            names = py(I.static(want, fi.file))
            d = sorted(set(n for n in names if names.count(n) > 1))
            if d:
                bad = [i for i, n in enumerate(names) if names.index(n) != i]
                return ('%s repeats name(s) %s: %s::from_name(x.get_name()) is not x for indices %s' % (want, u','.join(d), ty, bad), {'dups': d})
        ctx.guard('TABLES-NAMES', 'TABLES:%s:duplicate-names' % (TABLE_EXCEPTIONS.get(ty, snake(ty) + '_NAMES')), dup, 1)

    # ---- linear civil units: year, half-year, season, month
    def step_unit(kind):
        def f(x):
            y, i, n = x
            if kind == 'SolarYear':
                r = t.m(I.call('SolarYear::from_year', [y]), 'next', n)
                return (py(t.m(r, 'get_year')), 0)
            if kind == 'SolarMonth':
                r = t.m(I.call('SolarMonth::from_ym', [y, i + 1]), 'next', n)
                return (py(t.m(r, 'get_year')), py(t.m(r, 'get_month')) - 1)
            r = t.m(I.call('%s::from_index' % kind, [y, i]), 'next', n)
            return (py(t.m(r, 'get_year')), py(t.m(r, 'get_index')))
        return f
    for kind, size in (('SolarYear', 1), ('SolarHalfYear', 2), ('SolarSeason', 4), ('SolarMonth', 12)):
        dom = [(y, i, n) for y in (1, 2, 3, 2000, 9998, 9999) for i in sorted(set([0, size - 1])) for n in (-25, -13, -12, -5, -4, -3, -2, -1, 0, 1, 2, 3, 4, 5, 11, 12, 13, 25)
               if 1 <= (y * size + i + n) // size <= 9999]
        table(ctx, 'CARRY', 'CARRY:%s::next' % kind, dom, step_unit(kind), (lambda size: lambda x: ((x[0] * size + x[1] + x[2]) // size, (x[0] * size + x[1] + x[2]) % size))(size),
              '%s stepping by n moves exactly n units with a floor carry into the year' % kind, str, fn_site(p, kind + '::next'))
    for kind in ('LunarYear', 'SixtyCycleYear'):
        table(ctx, 'CARRY', 'CARRY:%s::next' % kind, [(y, n) for y in (-1, 0, 1, 2000, 9999) for n in (-3, -1, 0, 1, 3) if -1 <= y + n <= 9999],
              (lambda kind: lambda x: py(t.m(t.m(I.call('%s::from_year' % kind, [x[0]]), 'next', x[1]), 'get_year')))(kind), lambda x: x[0] + x[1], '%s stepping is year + n' % kind, str)

    # ---- solar term stepping: year / index arithmetic of the real from_index and next (series call stubbed: only year and index are observed)
    I3 = ctx.interp(fuel=20000000)
    I3.overrides['ShouXingUtil::calc_qi'] = lambda I_, r, a: a[0]
    t3 = T(I3)

    def term_step(x):
        y, i, n = x
        r = t3.m(I3.call('SolarTerm::from_index', [y, i]), 'next', n)
        return (py(t3.m(r, 'get_year')), py(t3.m(r, 'get_index')))
    domt = [(y, i, n) for y in (-1, 0, 1, 2, 2023) for i in (0, 5, 23) for n in (-49, -48, -29, -25, -24, -23, -6, -1, 0, 1, 18, 19, 24, 25, 48)]
    table(ctx, 'CARRY', 'CARRY:SolarTerm::next', domt, term_step, lambda x: ((x[0] * 24 + x[1] + x[2]) // 24, (x[0] * 24 + x[1] + x[2]) % 24),
          'stepping a term by n equals the term n places later, crossing years in either direction (also around year 0, reachable from lunar years 0 and -1)', str, fn_site(p, 'SolarTerm::next'))

    def term_ctor(x):
        y, i = x
        r = I3.call('SolarTerm::from_index', [y, i])
        return (py(t3.m(r, 'get_year')), py(t3.m(r, 'get_index')))
    table(ctx, 'CARRY', 'CARRY:SolarTerm::from_index', [(y, i) for y in (-1, 0, 1, 2023) for i in (-25, -24, -1, 0, 23, 24, 30, 47, 48)], term_ctor, lambda x: ((x[0] * 24 + x[1]) // 24, x[1] % 24),
          'constructing term (year, index) with an index outside 0..23 carries into the year by floor', str, fn_site(p, 'SolarTerm::from_index'))

    # by-name construction of a term is the inverse of its name getter and lands on the same cursory day as by-index construction
    from rules.c06 import TERMS

    def term_by_name(x):
        y, i = x
        a = I3.call('SolarTerm::from_index', [y, i])
        nm = t3.name(a)
        b = I3.call('SolarTerm::from_name', [y, nm])
        return (nm, py(t3.m(b, 'get_year')), py(t3.m(b, 'get_index')), t3.m(b, 'get_cursory_julian_day') == t3.m(a, 'get_cursory_julian_day'))
    table(ctx, 'SIB-CYCLE', 'SolarTerm::from_name', [(y, i) for y in (0, 2023) for i in range(24)], term_by_name,
          lambda x: (TERMS[x[1]], x[0], x[1], True),
          'SolarTerm::from_name(year, name) is the term of that name: same year, index and cursory day as by-index construction', str, fn_site(p, 'SolarTerm::from_name'))

    def term_bad_name():
        try:
            I3.call('SolarTerm::from_name', [2023, u'不存在的名'])
        except Bottom:
            return None
        return 'SolarTerm::from_name accepts an unknown name'
    ctx.guard('SIB-CYCLE', 'SolarTerm::from_name:unknown', term_bad_name, 1)

    # long jumps of lunar months over the stored table (shared with C03)
    from rules import c03 as _c03
    _c03.long_jump_rule(ctx)

    # ---- lunar month / day / hour stepping on a scenario calendar with leap months
    Y = 2000
    months = synthetic_months(Y, CAL.jdn(Y, 2, 5), 4, leap={Y: 4, Y + 2: 11}, prev_months=3, auto_leap=False)
    cm = CalModel(I, typical_terms(range(Y - 1, Y + 6)), months)
    inner = [r for r in months if r['year'] in (Y, Y + 1, Y + 2)]
    order = [(r['year'], r['month']) for r in months]

    def lm_step(x):
        k, a, b = x
        r = inner[k]
        m0 = cm.lunar_month_sv(r)
        ma = t.m(m0, 'next', a)
        mab = t.m(ma, 'next', b)
        direct = t.m(m0, 'next', a + b)
        key = lambda m: (py(t.m(m, 'get_year')), py(t.m(m, 'get_month_with_leap')))
        return (key(ma), key(mab) == key(direct), key(t.m(m0, 'next', 0)))

    def lm_orc(x):
        k, a, b = x
        r = inner[k]
        pos = order.index((r['year'], r['month']))
        return (order[pos + a], True, (r['year'], r['month']))
    doml = [(k, a, b) for k in range(0, len(inner)) for a in (-3, -1, 1, 2, 13) for b in (-2, 1) if 0 <= order.index((inner[k]['year'], inner[k]['month'])) + a < len(order)
            and 0 <= order.index((inner[k]['year'], inner[k]['month'])) + a + b < len(order)]
    table(ctx, 'PETE-SCENARIO', 'LunarMonth::next', doml, lm_step, lm_orc, 'lunar month stepping visits the months in order (leap month right after its twin), next(a).next(b) = next(a+b), next(0) = identity',
          lambda x: '%s next(%d).next(%d)' % ((inner[x[0]]['year'], inner[x[0]]['month']), x[1], x[2]), fn_site(p, 'LunarMonth::next'))

    def lh_step(x):
        hour, n = x
        r = inner[4]
        lh = I.call('LunarHour::from_ymd_hms', [r['year'], r['month'], 15, hour, 30, 15])
        res = t.m(lh, 'next', n)
        d0 = r['first'] + 14
        sd = t.m(t.m(res, 'get_lunar_day'), 'get_solar_day')
        return (cm.n_of(sd) - d0, py(t.m(res, 'get_hour')), py(t.m(res, 'get_minute')), py(t.m(res, 'get_second')))
    table(ctx, 'PETE-SCENARIO', 'LunarHour::next', [(h, n) for h in (0, 1, 11, 22, 23) for n in (-37, -13, -12, -11, -1, 0, 1, 11, 12, 13, 37)], lh_step,
          lambda x: ((x[0] + 2 * x[1]) // 24, (x[0] + 2 * x[1]) % 24, 30, 15), 'stepping a lunar hour by n moves exactly n double-hours (2n clock hours), carrying whole days by floor', str, fn_site(p, 'LunarHour::next'))

    def ld_step(x):
        k, d, a, b = x
        r = inner[k]
        ld = I.call('LunarDay::from_ymd', [r['year'], r['month'], d])
        n0 = r['first'] + d - 1
        x1 = t.m(t.m(ld, 'next', a), 'next', b)
        x2 = t.m(ld, 'next', a + b)
        return (cm.n_of(t.m(x1, 'get_solar_day')) - n0, I.values_equal(x1, x2), I.values_equal(t.m(ld, 'next', 0), ld))
    table(ctx, 'PETE-SCENARIO', 'LunarDay::next', [(k, d, a, b) for k in (2, 4, 5) for d in (1, 15, 29) for a in (-40, -1, 1, 31) for b in (-5, 0, 17)], ld_step,
          lambda x: (x[2] + x[3], True, True), 'lunar day stepping moves exactly n civil days; next(a).next(b) = next(a+b)', str, fn_site(p, 'LunarDay::next'))

    # ---- sexagenary hour (instant-level value): stepping by n seconds equals constructing the value of the instant n seconds later,
    # in particular across the start of a Jie inside one double-hour (year / month pillars change there)
    sec_h = dict((i, (i * 3607 + 1234) % 86000 + 100 + (0.4 if i % 4 in (0, 3) else 0.6)) for i in range(24))
    terms_h = typical_terms(range(Y - 1, Y + 3), sec=sec_h)

    def sch_step(x):
        n, s0, dn = x
        cmh = CalModel(I, terms_h, months)
        a = t.m(I.call('SixtyCycleHour::from_solar_time', [cmh.solar_time_n(n, s0)]), 'next', dn)
        n2, s2 = divmod(n * 86400 + s0 + dn, 86400)
        b = I.call('SixtyCycleHour::from_solar_time', [cmh.solar_time_n(n2, s2)])
        f = lambda v: (t.name(t.m(v, 'get_year')), t.name(t.m(v, 'get_month')), t.name(t.m(v, 'get_day')), t.name(t.m(v, 'get_sixty_cycle')))
        back = t.m(a, 'next', -dn)
        return (f(a) == f(b), f(back) == f(I.call('SixtyCycleHour::from_solar_time', [cmh.solar_time_n(n, s0)])))
    hdom = []
    for (ty_, ti_), (tn_, ts_) in sorted(terms_h.items()):
        if ti_ % 2 == 1 and CAL.from_jdn(tn_)[0] == Y and any(r['first'] <= tn_ - 1 and tn_ + 1 < r['first'] + r['count'] for r in months):
            rs_ = int(ts_ + 0.5)
            for (s0, dn) in ((rs_ - 300, 600), (rs_ - 1, 1), (rs_ - 1, 2), (rs_ + 300, -600), (rs_, -1), (rs_ - 300, 7200), (rs_ - 4000, 86400)):
                if 0 <= s0 < 86400:
                    hdom.append((tn_, s0, dn))
    table(ctx, 'PETE-SCENARIO', 'SixtyCycleHour::next', hdom, sch_step, lambda x: (True, True),
          'a sexagenary hour stepped by n seconds is the value of the instant n seconds later (also when the step crosses the start of a Jie inside one double-hour); stepping back returns',
          lambda a: '%s +%ds then next(%d)' % ('%d-%02d-%02d' % CAL.from_jdn(a[0]), a[1], a[2]), fn_site(p, 'SixtyCycleHour::next'))

    # ---- weeks: stepping by n moves the first day by exactly 7n days, forwards and backwards, also into and out of leap months
    def wday(n):
        return (n + 1) % 7
    # (one 28-day and one 31-day month: the library's own fitted new-moon table has a 28-day lunation, and week arithmetic must not assume 29 / 30)
    cmw = CalModel(I, {}, with_lengths(synthetic_months(2023, CAL.jdn(2023, 1, 22), 3, leap={2023: 2, 2025: 6}, prev_months=2, auto_leap=False), {(2024, 3): 28, (2024, 8): 31}))

    def sw(x):
        y, m, i, start, n = x
        w = I.call('SolarWeek::from_ym', [y, m, i, start])
        f0 = cmw.n_of(t.m(w, 'get_first_day'))
        w1 = t.m(w, 'next', n)
        back = cmw.n_of(t.m(t.m(w1, 'next', -n), 'get_first_day'))
        return (cmw.n_of(t.m(w1, 'get_first_day')) - f0, back - f0)
    doms = [(y, m, i, st, n) for (y, m) in ((2021, 2), (2024, 2), (2026, 1), (2026, 12), (1582, 10)) for i in ((0, 3) if y != 1582 else (0, 2)) for st in (0, 1, 4) for n in (-9, -5, -1, 1, 4, 5, 9)]
    table(ctx, 'CARRY', 'CARRY:SolarWeek::next', doms, sw, lambda x: (7 * x[4], 0), 'a civil week stepped by n starts exactly 7n days later; stepping back returns', str, fn_site(p, 'SolarWeek::next'))
    recs = cmw.months
    last_n = max(r['first'] + r['count'] for r in recs)
    first_n = min(r['first'] for r in recs)
    idxs = [k for k, r in enumerate(recs) if r['first'] - 80 > first_n and r['first'] + r['count'] + 80 < last_n]
    near_leap = [k for k in idxs if recs[k]['month'] < 0 or recs[k - 1]['month'] < 0 or (k + 1 < len(recs) and recs[k + 1]['month'] < 0)]

    def lw(x):
        k, i, start, n = x
        r = recs[k]
        w = I.call('LunarWeek::from_ym', [r['year'], r['month'], i, start])
        f0 = cmw.n_of(t.m(t.m(w, 'get_first_day'), 'get_solar_day'))
        w1 = t.m(w, 'next', n)
        f1 = cmw.n_of(t.m(t.m(w1, 'get_first_day'), 'get_solar_day'))
        fb = cmw.n_of(t.m(t.m(t.m(w1, 'next', -n), 'get_first_day'), 'get_solar_day'))
        return (f1 - f0, fb - f0)
    doml = []
    for k in sorted(set(near_leap + idxs[::3])):
        r = recs[k]
        for start in range(7):
            cnt = ((wday(r['first']) - start) % 7 + r['count'] + 6) // 7
            for i in (0, cnt - 1):
                for n in (-6, -5, -1, 1, 5, 6):
                    doml.append((k, i, start, n))
    table(ctx, 'PETE-SCENARIO', 'LunarWeek::next', doml, lw, lambda x: (7 * x[3], 0), 'a lunar week stepped by n starts exactly 7n days later (forwards and backwards, into and out of leap months); stepping back returns',
          lambda x: '%s-%s week=%d start=%d n=%d' % (recs[x[0]]['year'], recs[x[0]]['month'], x[1], x[2], x[3]), fn_site(p, 'LunarWeek::next'))
    CalModel(I, typical_terms(range(Y - 1, Y + 6)), months)

    # ---- the hand-written `==` of every unit: "returns x" is observed through it
    ctx.rule('EQ-UNIT', "every unit's hand-written `==`: a value equals itself rebuilt from the same arguments and after next(0) / next(n).next(-n); where equality is field-wise, a value stepped by n != 0 is not equal to the original")
    cme = CalModel(I, typical_terms(range(Y - 1, Y + 6)), months)
    r4, r5 = inner[4], inner[5]
    leap_rec = [r for r in inner if r['month'] < 0][0]
    # (label, builder, steps that must return, steps that must separate (None: equality is by name, separation not required))
    units = [
        ('SolarYear', lambda: I.call('SolarYear::from_year', [2023]), (1, -7), (1, -1, 60)),
        ('SolarHalfYear', lambda: I.call('SolarHalfYear::from_index', [2023, 1]), (1, -3), (1, 2, -2)),
        ('SolarSeason', lambda: I.call('SolarSeason::from_index', [2023, 3]), (1, -5), (1, 4, -4)),
        ('SolarMonth', lambda: I.call('SolarMonth::from_ym', [2023, 12]), (1, -13), (1, 12, -12)),
        ('SolarWeek', lambda: I.call('SolarWeek::from_ym', [2024, 2, 1, 1]), (1, -6), (1, -1, 5)),
        ('SolarDay', lambda: I.call('SolarDay::from_ymd', [1582, 10, 4]), (1, -400), (1, -1, 365, 366)),
        ('SolarTime', lambda: I.call('SolarTime::from_ymd_hms', [2023, 12, 31, 23, 59, 59]), (1, -86400), (1, 60, 3600, 86400)),
        ('JulianDay', lambda: I.call('JulianDay::from_julian_day', [2451545.25]), (), None),
        ('SixtyCycleYear', lambda: I.call('SixtyCycleYear::from_year', [2023]), (1, -61), (1, -1)),
        ('LunarYear', lambda: I.call('LunarYear::from_year', [Y + 1]), (1, -1), (1, -1)),
        ('LunarSeason', lambda: I.call('LunarSeason::from_index', [2]), (1, -5), None),
        ('LunarMonth', lambda: cme.lunar_month_sv(r4), (1, -2), (1, -1, 12, 13)),
        ('LunarMonth(leap)', lambda: cme.lunar_month_sv(leap_rec), (1, -1), (1, -1)),
        ('LunarWeek', lambda: I.call('LunarWeek::from_ym', [r5['year'], r5['month'], 1, 0]), (1, -3), (1, -1)),
        ('LunarDay', lambda: I.call('LunarDay::from_ymd', [leap_rec['year'], leap_rec['month'], 1]), (1, -1, 30), (1, -1, 29, 30, 59)),
        ('LunarHour', lambda: I.call('LunarHour::from_ymd_hms', [r4['year'], r4['month'], 15, 23, 30, 15]), (1, -13), (1, -1, 12)),
        ('SixtyCycleDay', lambda: I.call('SixtyCycleDay::from_solar_day', [cme.solar_day_n(r4['first'] + 3)]), (1, -7), None),
        ('SixtyCycleHour', lambda: I.call('SixtyCycleHour::from_solar_time', [cme.solar_time_n(r4['first'] + 3, 23 * 3600 + 10)]), (7200, -7200), None),
        ('SolarFestival', lambda: I.call('SolarFestival::from_index', [2023, 3]).v, (1, -4), None),
        ('LegalHoliday', lambda: I.call('LegalHoliday::from_ymd', [2024, 2, 10]).v, (), None),
    ]
    n_units = 0
    for label, build, back, sep in units:
        def one_unit(label=label, build=build, back=back, sep=sep):
            x = build()
            if x is None or x is NONE:
                raise Unanalysable('%s: sample value could not be built' % label)
            if not I.values_equal(x, build()):
                return '%s: `==` denies that two values built from the same arguments are equal' % label
            if back and not I.values_equal((lambda v: v.v if isinstance(v, Opt) else v)(t.m(x, 'next', 0)), x):
                return '%s: x.next(0) == x is false' % label
            unw = lambda v: v.v if isinstance(v, Opt) else v
            for n in back:
                if not I.values_equal(unw(t.m(unw(t.m(x, 'next', n)), 'next', -n)), x):
                    return '%s: x.next(%d).next(%d) == x is false' % (label, n, -n)
            for n in (sep or ()):
                if I.values_equal(t.m(x, 'next', n), x):
                    return '%s: x.next(%d) == x is true although the value moved by %d units' % (label, n, n)
            return None
        ty0 = label.split('(')[0]
        if p.find_method(ty0, 'eq') is None and not any(tr.startswith('PartialEq') for tr in p.trait_impls.get(ty0, {})):
            continue
        n_units += 1
        ctx.guard('EQ-UNIT', 'EQ:%s' % label, one_unit, 2 + len(back) + len(sep or ()), {'unit': label})
    ctx.floor('EQ-UNIT', 'units with a hand-written equality that were exercised', n_units, 20)

    ctx.assumptions.append('lunar month table and civil day count replaced by scenario / oracle stand-ins (C02/C03, C01)')
    ctx.not_decided.append('group laws of lunar month / day stepping on the REAL lunar calendar (month records are numeric: C03)')
    return ('43 cycle types checked one by one (own table, Euclidean index, group action, name lookup inverse, refusal), the modular helper, every linear unit\'s carry '
            'arithmetic incl. solar terms around year 0, and lunar month / day / hour stepping on a scenario calendar with leap months')
