# -*- coding: utf-8 -*-
"""C13 — containers list exactly their parts: year, half, season, month, day, hour."""
from rlib import T, table, py, fn_site, Bottom, Unanalysable
from pete import SV, RInt
from calmodel import CalModel, typical_terms, synthetic_months
import calendar_oracle as CAL
import ganzhi as G

Y = 2000


def run(ctx):
    ctx.exhaustive = False
    ctx.exhaustive_note = 'container listings on listed sample years / scenario calendars'
    from rules import shared
    ctx.include('effect_inventory', shared.effect_inventory)   # no new process-wide mutable state (MIR statics inventory)
    ctx.include('month_records', shared.month_records)   # leap table, solstice anchor, month memo, memo cells (shared, cached per source hash)
    ctx.include('jd_tables', shared.jd_tables)           # civil date <-> day number per (year, month) (shared, cached per source hash)
    I = ctx.interp(fuel=80000000)
    t = T(I)
    p = ctx.prog
    R = 'PETE-TABLE'
    ctx.rule(R, 'container listing evaluated from the syntax tree == the parts that exist, in order')
    ctx.rule('PETE-SCENARIO', 'lunar / sexagenary containers evaluated on scenario calendars (numeric layer replaced by oracles)')

    # ---- civil nesting: year -> halves, seasons, months; closed system over all 12 months
    cm = CalModel(I, {}, [])

    def nest(y):
        sy = I.call('SolarYear::from_year', [y])
        halves = t.m(sy, 'get_half_years')
        seasons = t.m(sy, 'get_seasons')
        months = t.m(sy, 'get_months')
        out = {'halves': [(py(t.m(h, 'get_year')), py(t.m(h, 'get_index'))) for h in halves],
               'seasons': [(py(t.m(s, 'get_year')), py(t.m(s, 'get_index'))) for s in seasons],
               'months': [(py(t.m(m, 'get_year')), py(t.m(m, 'get_month'))) for m in months],
               'half_months': [[py(t.m(m, 'get_month')) for m in t.m(h, 'get_months')] for h in halves],
               'half_seasons': [[py(t.m(s, 'get_index')) for s in t.m(h, 'get_seasons')] for h in halves],
               'season_months': [[py(t.m(m, 'get_month')) for m in t.m(s, 'get_months')] for s in seasons],
               'month_season': [py(t.m(t.m(m, 'get_season'), 'get_index')) for m in months],
               # child -> parent accessors name the container the child was listed in
               'parents': [py(t.m(t.m(h, 'get_solar_year'), 'get_year')) for h in halves] + [py(t.m(t.m(s, 'get_solar_year'), 'get_year')) for s in seasons]
                          + [py(t.m(t.m(m, 'get_solar_year'), 'get_year')) for m in months],
               'day_parent': [(py(t.m(sm_, 'get_year')), py(t.m(sm_, 'get_month'))) for sm_ in [t.m(t.m(m, 'get_days')[0], 'get_solar_month') for m in months]]}
        return out

    def nest_orc(y):
        return {'halves': [(y, 0), (y, 1)], 'seasons': [(y, i) for i in range(4)], 'months': [(y, m) for m in range(1, 13)],
                'half_months': [list(range(1, 7)), list(range(7, 13))], 'half_seasons': [[0, 1], [2, 3]],
                'season_months': [[3 * s + 1, 3 * s + 2, 3 * s + 3] for s in range(4)], 'month_season': [(m - 1) // 3 for m in range(1, 13)],
                'parents': [y] * 18, 'day_parent': [(y, m) for m in range(1, 13)]}
    table(ctx, R, 'SolarYear:nesting', [1, 1582, 2000, 2024, 9999], nest, nest_orc, 'a civil year lists 2 half-years, 4 seasons, 12 months that nest correctly', str, fn_site(p, 'SolarYear::get_months'))

    # ---- month -> exactly the dates that exist, in order; count = day count
    months = [(y, m) for y in (1, 4, 1500, 1582, 1600, 1900, 2000, 2023, 2024, 9999) for m in range(1, 13)]

    def mdays(x):
        y, m = x
        sm = I.call('SolarMonth::from_ym', [y, m])
        l = t.m(sm, 'get_days')
        return ([cm.ymd_of(d) for d in l], py(t.m(sm, 'get_day_count')))

    def mdays_orc(x):
        y, m = x
        ds = [(y, m, d) for d in range(1, 32) if CAL.exists(y, m, d)]
        return (ds, len(ds))
    table(ctx, R, 'SolarMonth::get_days', months, mdays, mdays_orc, 'a month lists exactly the dates that exist in it, in order, and their number is its day count (October 1582: 1-4, 15-31)',
          lambda x: '%d-%d' % x, fn_site(p, 'SolarMonth::get_days'))

    # ---- day-of-year = position in the concatenated month lists; the year's day count = their total
    def doy(y):
        sy = I.call('SolarYear::from_year', [y])
        pos = 0
        bad = []
        for m in t.m(sy, 'get_months'):
            for d in t.m(m, 'get_days'):
                got = py(t.m(d, 'get_index_in_year'))
                if got != pos and len(bad) < 3:
                    bad.append((cm.ymd_of(d), got, pos))
                pos += 1
        return (bad, pos == py(t.m(sy, 'get_day_count')))
    table(ctx, R, 'SolarDay::get_index_in_year:lists', [100, 1500, 1582, 1900, 2024], doy, lambda y: ([], True), 'day-of-year equals the position in the concatenated month lists and the year length equals their total', str, fn_site(p, 'SolarDay::get_index_in_year'))

    # ---- lunar containers on a scenario calendar (a leap year and a common year)
    lichun = CAL.jdn(Y, 2, 4)
    terms = typical_terms(range(Y - 1, Y + 4))
    lmonths = synthetic_months(Y, lichun + 1, 3, leap={Y: 4}, prev_months=3, auto_leap=False)
    cm2 = CalModel(I, terms, lmonths)

    def lyear(y):
        ly = I.call('LunarYear::from_year', [y])
        ms = t.m(ly, 'get_months')
        return ([py(t.m(m, 'get_month_with_leap')) for m in ms], py(t.m(ly, 'get_month_count')), py(t.m(ly, 'get_day_count')))

    def lyear_orc(y):
        recs = [r for r in lmonths if r['year'] == y]
        return ([r['month'] for r in recs], len(recs), sum(r['count'] for r in recs))
    table(ctx, 'PETE-SCENARIO', 'LunarYear::get_months', [Y, Y + 1], lyear, lyear_orc, 'a lunar year lists exactly its 12 or 13 months in order (leap month directly after its twin); counts agree', str, fn_site(p, 'LunarYear::get_months'))

    def lmdays(i):
        r = [r for r in lmonths if r['year'] in (Y, Y + 1)][i]
        lm = cm2.lunar_month_sv(r)
        ds = t.m(lm, 'get_days')
        return [(py(t.m(d, 'get_year')), py(t.m(d, 'get_month')), py(t.m(d, 'get_day'))) for d in ds]

    def lmdays_orc(i):
        r = [r for r in lmonths if r['year'] in (Y, Y + 1)][i]
        return [(r['year'], r['month'], d) for d in range(1, r['count'] + 1)]
    table(ctx, 'PETE-SCENARIO', 'LunarMonth::get_days', range(len([r for r in lmonths if r['year'] in (Y, Y + 1)])), lmdays, lmdays_orc, 'a lunar month lists exactly its 29 or 30 days', str, fn_site(p, 'LunarMonth::get_days'))

    # ---- lunar day -> 13 double-hour slots of that very day (regular and leap month)
    def lhours(x):
        y, m, d = x
        ld = I.call('LunarDay::from_ymd', [y, m, d])
        hs = t.m(ld, 'get_hours')
        return [(py(t.m(h, 'get_year')), py(t.m(h, 'get_month')), py(t.m(h, 'get_day')), py(t.m(h, 'get_hour')), py(t.m(h, 'get_index_in_day'))) for h in hs]
    table(ctx, 'PETE-SCENARIO', 'LunarDay::get_hours', [(Y, 4, 1), (Y, -4, 1), (Y, -4, 30), (Y, 12, 29), (Y + 1, 1, 15)], lhours,
          lambda x: [(x[0], x[1], x[2], 0, 0)] + [(x[0], x[1], x[2], h, (h + 1) // 2) for h in range(1, 24, 2)], 'a lunar day lists its 13 double-hour slots (00:00, 01:00, 03:00 ... 23:00) of that very day', str, fn_site(p, 'LunarDay::get_hours'))

    # ---- sexagenary day -> 12 double-hour slots starting 23:00 of the previous civil day
    def shours(n):
        d = I.call('SixtyCycleDay::from_solar_day', [cm2.solar_day_n(n)])
        hs = t.m(d, 'get_hours')
        out = []
        for h in hs:
            st = t.m(h, 'get_solar_time')
            out.append((cm2.n_of(t.m(st, 'get_solar_day')), py(t.m(st, 'get_hour')), py(t.m(h, 'get_index_in_day')), t.name(t.m(h, 'get_day'))))
        return out

    def shours_orc(n):
        dp = G.sixty((n + 49) % 60)
        return [(n - 1, 23, 0, dp)] + [(n, 2 * k - 1, k, dp) for k in range(1, 12)]
    table(ctx, 'PETE-SCENARIO', 'SixtyCycleDay::get_hours', [CAL.jdn(Y, 3, 1), CAL.jdn(Y, 2, 4), CAL.jdn(Y, 12, 31), CAL.jdn(Y + 1, 1, 1), CAL.jdn(Y, 3, 31) + 1], shours, shours_orc,
          'a sexagenary day lists its 12 double-hours from 23:00 of the previous civil day, all carrying that day\'s pillar', lambda n: '%d-%d-%d' % CAL.from_jdn(n), fn_site(p, 'SixtyCycleDay::get_hours'))

    # ---- sexagenary month -> days from its Jie day to the day before the next Jie
    def smdays(k):
        m = I.call('SixtyCycleMonth::from_index', [Y, k])
        ds = t.m(m, 'get_days')
        return [cm2.n_of(t.m(d, 'get_solar_day')) for d in ds]

    def smdays_orc(k):
        a = terms[(Y, 3 + 2 * k)][0] if 3 + 2 * k < 24 else terms[(Y + 1, 3 + 2 * k - 24)][0]
        kk = 3 + 2 * (k + 1)
        b = terms[(Y, kk)][0] if kk < 24 else terms[(Y + 1, kk - 24)][0]
        return list(range(a, b))
    def smdays_stepped(x):
        k, back = x
        m = t.m(I.call('SixtyCycleMonth::from_index', [Y + 1, (k + back) % 12 if False else 0]), 'next', k - 12) if back else t.m(I.call('SixtyCycleMonth::from_index', [Y - 1, 11]), 'next', k + 1)
        ds = t.m(m, 'get_days')
        return ([cm2.n_of(t.m(d, 'get_solar_day')) for d in ds], py(t.m(t.m(m, 'get_sixty_cycle_year'), 'get_year')))
    table(ctx, 'PETE-SCENARIO', 'SixtyCycleMonth::get_days:stepped', [(k, b) for k in (0, 1, 10, 11) for b in (True, False)], smdays_stepped, lambda x: (smdays_orc(x[0]), Y),
          'a sexagenary month reached by stepping backwards / forwards across Lichun is the same month (same year, same days) as the one built by index', str, fn_site(p, 'SixtyCycleMonth::next'))

    terms_j = typical_terms(range(Y - 1, Y + 4), shift=dict((i, -12) for i in range(24)))
    cm3 = CalModel(I, terms_j, lmonths)

    def smdays_j(k):
        CalModel(I, terms_j, lmonths)
        m = I.call('SixtyCycleMonth::from_index', [Y, k])
        ds = t.m(m, 'get_days')
        return [cm3.n_of(t.m(d, 'get_solar_day')) for d in ds]

    def smdays_j_orc(k):
        a = terms_j[(Y, 3 + 2 * k)][0] if 3 + 2 * k < 24 else terms_j[(Y + 1, 3 + 2 * k - 24)][0]
        kk = 3 + 2 * (k + 1)
        b = terms_j[(Y, kk)][0] if kk < 24 else terms_j[(Y + 1, kk - 24)][0]
        return list(range(a, b))
    table(ctx, 'PETE-SCENARIO', 'SixtyCycleMonth::get_days:julian-era', range(12), smdays_j, smdays_j_orc, 'the same with the Jie days ~12 days earlier in the civil month (Julian era): the Jie day itself belongs to the new month', lambda k: u'%s月' % G.BRANCHES[(2 + k) % 12], fn_site(p, 'SixtyCycleMonth::get_days'))
    # the day table used for calendar making may differ by a day from the day of the precise instant (it does for some terms before 1928):
    # a sexagenary month starts on the day of the precise Jie instant
    cshift = {}
    for k_ in range(12):
        key_ = (Y, 3 + 2 * k_) if 3 + 2 * k_ < 24 else (Y + 1, 3 + 2 * k_ - 24)
        cshift[key_] = (-1, 1, 0)[k_ % 3]

    def smdays_c(k):
        cmc = CalModel(I, terms, lmonths, cursory_shift=cshift)
        m = I.call('SixtyCycleMonth::from_index', [Y, k])
        fd = cmc.n_of(t.m(t.m(m, 'get_first_day'), 'get_solar_day'))
        return ([cmc.n_of(t.m(d, 'get_solar_day')) for d in t.m(m, 'get_days')], fd)
    table(ctx, 'PETE-SCENARIO', 'SixtyCycleMonth::get_days:day-table-off-by-one', range(12), smdays_c, lambda k: (smdays_orc(k), smdays_orc(k)[0]),
          'with the calendar-making day table a day off the precise instant for some Jie (as before 1928), the month still starts on the day of the precise Jie instant',
          lambda k: u'%s月' % G.BRANCHES[(2 + k) % 12], fn_site(p, 'SixtyCycleMonth::get_first_day'))
    CalModel(I, terms, lmonths)
    table(ctx, 'PETE-SCENARIO', 'SixtyCycleMonth::get_days', range(12), smdays, smdays_orc, 'a sexagenary month lists exactly the days from its Jie day to the day before the next Jie', lambda k: u'%s月' % G.BRANCHES[(2 + k) % 12], fn_site(p, 'SixtyCycleMonth::get_days'))

    # the one place where a REAL lunar month's length is readable from a literal table alone: the fitted new-moon segments (shared with C03)
    from rules import c03 as _c03
    _c03.fit_rule(ctx)

    # ---- the two ends of the supported range (first days of 0001, last days of 9999, last lunar year)
    from rules import range_end as _re
    _Ie = ctx.interp(fuel=50000000)
    _re.c13_edge(ctx, _Ie, T(_Ie))

    ctx.assumptions.append('civil date <-> day number replaced by the calendar oracle (C01); lunar months and term days are scenario inputs (C02/C03, C05/C06)')
    ctx.not_decided.append('real lunar years / months as correct lists (their lengths are numeric: C03); day-of-year agreement is decided in C01')
    return ('container listings evaluated from the syntax tree: civil nesting as a closed system, month -> existing dates (incl. October 1582), and the lunar / sexagenary '
            'containers on scenario calendars incl. a leap month')
