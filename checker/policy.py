"""Evaluation policy: which repository functions PETE refuses to evaluate.

PETE only ever evaluates finite-domain table code.  The astronomical float series and the Julian-day
formulas depend on calendar numerics; reaching them makes the rule instance UNANALYSABLE (fail closed)
unless the rule supplied a symbolic stand-in (override) or lifted the ban for a stated reason.
"""

FORBIDDEN = [
    'ShouXingUtil::*',            # VSOP/ELP series, TT-UT, qi/shuo solvers
    'JulianDay::from_ymd_hms',    # Meeus date -> JD float formula
    'JulianDay::get_solar_time',  # Meeus JD -> date float formula
]


def apply(interp):
    interp.forbidden = set(FORBIDDEN)
