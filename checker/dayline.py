# -*- coding: utf-8 -*-
"""Day-line intrinsics: symbolic stand-ins for the calendar layer.

A civil day is a point n on Z; `next(k)` adds k, `subtract` is the difference, `is_before/is_after` are < / >.
The sexagenary pillar and the weekday of day n are (n + pillar0) mod 60 and (n + week0) mod 7.
Solar terms are symbolic objects whose civil day is supplied by the rule instance (a finite window is
enumerated).  These abstractions rest on C01 (day count) and C07 (pillar / weekday anchors); rules that
use them say so in their assumptions.  Nothing numeric of the repository is evaluated.
"""
from pete import Symbolic, RInt, Unanalysable, Bottom, py, as_num


class DayLine(object):
    def __init__(self, I, term_day=None, pillar0=0, week0=0, ymd=None, term_time=None):
        self.I = I
        self.term_day = term_day or {}     # (year, idx) -> n   or callable(year, idx) -> n
        self.pillar0 = pillar0
        self.week0 = week0
        self.ymd = ymd                     # callable n -> (y, m, d)
        self.install()

    # ---- constructors
    def day(self, n):
        return Symbolic('SolarDay', n)

    def term(self, year, idx):
        year += idx // 24 if idx >= 0 else -((-idx + 23) // 24)
        idx = idx % 24
        return Symbolic('SolarTerm', (year, idx))

    def tday(self, year, idx):
        if callable(self.term_day):
            n = self.term_day(year, idx)
        else:
            n = self.term_day.get((year, idx))
        if n is None:
            raise Unanalysable('day-line: rule supplied no day for term (%s, %s)' % (year, idx))
        return n

    def _ymd(self, n):
        if self.ymd is None:
            raise Unanalysable('day-line: civil (y, m, d) of a symbolic day requested but not supplied by the rule')
        return self.ymd(n)

    def install(self):
        I = self.I
        o = I.overrides
        o['SolarDay::next'] = lambda I_, r, a: self.day(r.data + as_num(a[0]))
        o['SolarDay::subtract'] = lambda I_, r, a: RInt(r.data - a[0].data, 'isize')
        o['SolarDay::is_before'] = lambda I_, r, a: r.data < a[0].data
        o['SolarDay::is_after'] = lambda I_, r, a: r.data > a[0].data
        o['SolarDay::get_year'] = lambda I_, r, a: RInt(self._ymd(r.data)[0], 'isize')
        o['SolarDay::get_month'] = lambda I_, r, a: RInt(self._ymd(r.data)[1], 'usize')
        o['SolarDay::get_day'] = lambda I_, r, a: RInt(self._ymd(r.data)[2], 'usize')
        o['SolarDay::get_week'] = lambda I_, r, a: I.call('Week::from_index', [r.data + self.week0])
        o['SolarDay::get_lunar_day'] = lambda I_, r, a: Symbolic('LunarDay', r.data)
        o['SolarDay::get_julian_day'] = lambda I_, r, a: Symbolic('JulianDay', ('day', r.data))
        o['SolarDay::clone'] = lambda I_, r, a: r
        o['SolarDay::eq'] = lambda I_, r, a: r.data == a[0].data
        o['LunarDay::get_sixty_cycle'] = self._lunar_sixty
        o['LunarDay::get_solar_day'] = self._lunar_solar
        o['SolarTerm::from_index'] = lambda I_, r, a: self.term(as_num(a[0]), as_num(a[1]))
        o['SolarTerm::next'] = lambda I_, r, a: self.term(r.data[0], r.data[1] + as_num(a[0]))
        o['SolarTerm::get_index'] = lambda I_, r, a: RInt(r.data[1], 'usize')
        o['SolarTerm::get_year'] = lambda I_, r, a: RInt(r.data[0], 'isize')
        o['SolarTerm::get_julian_day'] = lambda I_, r, a: Symbolic('JulianDay', ('term', r.data))
        o['SolarTerm::get_name'] = lambda I_, r, a: py(I.static('SOLAR_TERM_NAMES', 'src/tyme/solar.rs'))[r.data[1]]
        o['SolarTerm::is_jie'] = lambda I_, r, a: r.data[1] % 2 == 1
        o['SolarTerm::is_qi'] = lambda I_, r, a: r.data[1] % 2 == 0
        o['SolarTerm::clone'] = lambda I_, r, a: r
        o['JulianDay::get_solar_day'] = self._jd_solar_day
        o['JulianDay::clone'] = lambda I_, r, a: r

    def _jd_solar_day(self, I_, r, a):
        if isinstance(r, Symbolic):
            kind, d = r.data
            if kind == 'day':
                return self.day(d)
            return self.day(self.tday(d[0], d[1]))
        raise Unanalysable('JulianDay::get_solar_day on a concrete Julian day inside the day-line model')

    def _lunar_sixty(self, I_, r, a):
        if isinstance(r, Symbolic):
            return self.I.call('SixtyCycle::from_index', [r.data + self.pillar0])
        # concrete LunarDay struct built by a rule: run the real body
        fn = self.I.p.find_method('LunarDay', 'get_sixty_cycle')
        return self.I.call_fn(fn, r, [], 'LunarDay')

    def _lunar_solar(self, I_, r, a):
        if isinstance(r, Symbolic):
            return self.day(r.data)
        fn = self.I.p.find_method('LunarDay', 'get_solar_day')
        return self.I.call_fn(fn, r, [], 'LunarDay')
