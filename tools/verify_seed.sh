#!/bin/sh
# usage: verify_seed.sh <Cxx> <A|B> <patch> <demo.rs>  -> prints one status line; uses its own scratch worktree of /repo HEAD
ID=$1; V=$2; PATCH=$3; DEMO=$4
W=/tmp/seedwt/${ID}_$V
rm -rf $W; mkdir -p /tmp/seedwt
git -C /repo worktree add -q --detach $W HEAD 2>/dev/null || { echo "$ID/$V worktree-failed"; exit 0; }
cd $W
mkdir -p tests; cp $DEMO tests/demo.rs
BASE=$(cargo test --offline --test demo 2>&1 | grep -E "^test result" | head -1)
if ! git apply $PATCH 2>/dev/null; then echo "$ID/$V PATCH-CONFLICT base_demo=[$BASE]"; cd /; git -C /repo worktree remove --force $W; exit 0; fi
BUILD=$(cargo build --offline 2>&1 | grep -cE "^(error|warning)")
SUITE=$(cargo test --offline --lib 2>&1 | grep -E "^test result" | head -1)
MUT=$(cargo test --offline --test demo 2>&1 | grep -E "^test result" | head -1)
echo "$ID/$V build_msgs=$BUILD suite=[$SUITE] demo_on_HEAD=[$BASE] demo_with_patch=[$MUT]"
cd /; git -C /repo worktree remove --force $W
