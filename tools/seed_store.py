#!/usr/bin/env python3
"""build /verif/seeded/<id>/ from the agents' outputs (patch applying to current /repo HEAD, demo, meta.json)"""
import json, os, shutil, subprocess, sys
SKIP = {('C06', 'B'): 'after the forward-walk repair of SolarTime::get_term the change no longer breaks the property (demo passes)'}
res = {}
for line in open('/tmp/seed_results.txt'):
    if '/' in line[:6]:
        k = line.split()[0]
        res[k] = line.strip()
res['C03/B'] = 'C03/B build_msgs=0 suite=[272 passed] demo_on_HEAD=[ok. 2 passed] demo_with_patch=[FAILED. 0 passed; 2 failed] (ported)'
for i in range(1, 21):
    pid = 'C%02d' % i
    for v in 'AB':
        if (pid, v) in SKIP:
            continue
        src = '/tmp/wt/%s.out/%s' % (pid, v)
        ported = '/tmp/ported/%s_%s.diff' % (pid, v)
        patch = ported if os.path.exists(ported) else src + '/patch.diff'
        r = res.get('%s/%s' % (pid, v), '')
        if 'FAILED' not in r.split('demo_with_patch')[-1] or '272 passed' not in r or 'ok.' not in r.split('demo_on_HEAD')[-1].split('demo_with_patch')[0]:
            print('not verified, skipping', pid, v, r[:80]); continue
        d = '/verif/seeded/%s%s' % (pid, v)
        os.makedirs(d, exist_ok=True)
        shutil.copy(patch, d + '/patch.diff')
        shutil.copy(src + '/demo.rs', d + '/demo.rs')
        notes = open(src + '/notes.md', encoding='utf-8').read() if os.path.exists(src + '/notes.md') else ''
        meta = {'id': pid + v, 'breaks_property': pid, 'author': 'independent sub-agent given only the property text and a scratch worktree',
                'ported': os.path.exists(ported), 'ported_note': 'original patch conflicted with a later fix: commit in /repo; the same change was re-applied by hand to the repaired code' if os.path.exists(ported) else None,
                'needs_to_manifest': notes.strip()[:1500],
                'confirmed_by': 'tools/verify_seed.sh in a scratch worktree of /repo HEAD: patch applies, `cargo build` clean, `cargo test --lib` 272 passed, tests/demo.rs passes on HEAD and fails with the patch',
                'confirmation_output': r}
        json.dump(meta, open(d + '/meta.json', 'w', encoding='utf-8'), ensure_ascii=False, indent=1)
print(sorted(os.listdir('/verif/seeded')))
