#!/usr/bin/env python3
"""prints the as-built one-page summary (markdown) from evidence/*.json, known_findings.txt and seeded/MATRIX.json"""
import json, glob, os, re
V = os.path.dirname(os.path.dirname(os.path.abspath(__file__)))
kf = {}
for l in open(os.path.join(V, 'known_findings.txt'), encoding='utf-8'):
    m = re.match(r'^property=(C\d+) key=(\S+)', l)
    if m:
        kf.setdefault(m.group(1), []).append(m.group(2))
mx = json.load(open(os.path.join(V, 'seeded', 'MATRIX.json'))) if os.path.exists(os.path.join(V, 'seeded', 'MATRIX.json')) else {}
per = {}
for k, v in mx.items():
    p = v.get('property') or k[:3]
    a = per.setdefault(p, [0, 0])
    a[1] += 1
    if v.get('rc') == 1:
        a[0] += 1
print('| id | obligations | points examined | rule kinds | functions walked | seeded changes caught | open known findings | not decided |')
print('|---|---|---|---|---|---|---|---|')
for f in sorted(glob.glob(os.path.join(V, 'evidence', 'C*.json'))):
    d = json.load(open(f, encoding='utf-8'))
    c = d['coverage']
    pid = d['property_id']
    nd = '; '.join(x[:150] for x in c.get('not_decided', []))
    print('| %s | %d | %d | %s | %d | %s | %s | %s |' % (pid, c['obligations'], c['evaluations'], ', '.join(sorted(k for k, r in c['rules'].items() if r['instances'] > 0)),
          c.get('functions_evaluated', {}).get('count', 0), '%d / %d' % tuple(per.get(pid, [0, 0])), ', '.join('`%s`' % k for k in kf.get(pid, [])) or '-', nd or '-'))
