//! Compile-fail witnesses for type-level facts the properties rely on. Every witness has a compiling twin that differs
//! only in the offending line, so that a witness whose path is merely wrong cannot pass as "fails to compile".
//! Run with `cargo +nightly test --doc` (the error code is enforced on nightly only).

/// C10: a lunar day carries `RefCell` memo cells, so it must not be shareable across threads.
/// ```compile_fail,E0277
/// fn s<T: Sync>() {}
/// s::<tyme4rs::tyme::lunar::LunarDay>();
/// ```
/// twin:
/// ```no_run
/// fn s<T: Send>() {}
/// s::<tyme4rs::tyme::lunar::LunarDay>();
/// ```
pub struct LunarDayNotSync;

/// C10: same for a lunar hour.
/// ```compile_fail,E0277
/// fn s<T: Sync>() {}
/// s::<tyme4rs::tyme::lunar::LunarHour>();
/// ```
/// twin:
/// ```no_run
/// fn s<T: Send>() {}
/// s::<tyme4rs::tyme::lunar::LunarHour>();
/// ```
pub struct LunarHourNotSync;

/// C10: the month memo is not reachable from outside the crate.
/// ```compile_fail,E0603
/// use tyme4rs::tyme::lunar::LUNAR_MONTH_CACHE;
/// ```
/// twin:
/// ```no_run
/// use tyme4rs::tyme::lunar::LUNAR_MONTH_NAMES;
/// ```
pub struct CachePrivate;

/// C10: the strategy boxes are not reachable from outside the crate (no external writer).
/// ```compile_fail,E0603
/// use tyme4rs::tyme::lunar::EIGHT_CHAR_PROVIDER;
/// ```
/// ```compile_fail,E0603
/// use tyme4rs::tyme::eightchar::CHILD_LIMIT_PROVIDER;
/// ```
/// twin:
/// ```no_run
/// use tyme4rs::tyme::eightchar::ChildLimit;
/// ```
pub struct ProvidersPrivate;

/// C01: a civil day cannot be built around its validating constructor.
/// ```compile_fail,E0451
/// let d = tyme4rs::tyme::solar::SolarDay::from_ymd(2000, 1, 1);
/// let _bad = tyme4rs::tyme::solar::SolarDay { day: 32, ..d };
/// ```
/// twin:
/// ```no_run
/// let d = tyme4rs::tyme::solar::SolarDay::from_ymd(2000, 1, 1);
/// let _ok = d;
/// ```
pub struct SolarDayGuarded;

/// C12 / C02: the same for instants and lunar values.
/// ```compile_fail,E0451
/// let t = tyme4rs::tyme::solar::SolarTime::from_ymd_hms(2000, 1, 1, 0, 0, 0);
/// let _bad = tyme4rs::tyme::solar::SolarTime { hour: 25, ..t };
/// ```
/// ```compile_fail,E0451
/// let m = tyme4rs::tyme::lunar::LunarMonth::from_ym(2000, 1);
/// let _bad = tyme4rs::tyme::lunar::LunarMonth { month: 13, ..m };
/// ```
/// ```compile_fail,E0451
/// let y = tyme4rs::tyme::solar::SolarYear::from_year(2000);
/// let _bad = tyme4rs::tyme::solar::SolarYear { year: 0, ..y };
/// ```
/// twin:
/// ```no_run
/// let _t = tyme4rs::tyme::solar::SolarTime::from_ymd_hms(2000, 1, 1, 0, 0, 0);
/// let _m = tyme4rs::tyme::lunar::LunarMonth::from_ym(2000, 1);
/// let _y = tyme4rs::tyme::solar::SolarYear::from_year(2000);
/// ```
pub struct ValuesGuarded;

/// C01: a refusal is a value the caller must handle, not a silently clamped date.
/// ```compile_fail,E0308
/// let _d: tyme4rs::tyme::solar::SolarDay = tyme4rs::tyme::solar::SolarDay::new(2000, 1, 1);
/// ```
/// twin:
/// ```no_run
/// let _d: tyme4rs::tyme::solar::SolarDay = tyme4rs::tyme::solar::SolarDay::new(2000, 1, 1).unwrap();
/// ```
pub struct RefusalIsAValue;
