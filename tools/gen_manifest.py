#!/usr/bin/env python3
"""Regenerates /verif/MANIFEST.json from the table below (single source of truth for claims)."""
import json
import os

VERIF = os.path.dirname(os.path.dirname(os.path.abspath(__file__)))

# id -> (technique, level text, level note, design ref)
CLAIMS = {
    'C19': ('finite-domain table evaluation (PETE) of attribute getters from the syntax tree vs first-principles oracles',
            'Every stem/branch/cycle attribute getter named by the property is a finite function of cycle indices. The checker '
            'evaluates each one from the syntax tree over its whole domain (10, 12, 10x10, 10x12, 60, 28, 9, 366 month-days) and '
            'compares the table with a name-level first-principles oracle; involution / inverse-pair laws are checked over the '
            'whole domain. Exhaustive for the statement: nothing in it depends on dates.',
            'Trusted: syn parser, the checker\'s Rust-integer semantics (checker/pete.py), the hand-written oracle tables under '
            '/verif/oracles (each next to the classical sentence it encodes). A getter rewritten in a form outside the evaluator\'s '
            'envelope is reported UNANALYSABLE and fails closed.', 'DESIGN.md §3 C19'),
    'C18': ('reader evaluation over the whole finite key space of the packed literal tables (TABLES/PETE)',
            'The three packed almanac tables are read by hand-written slicing/regex code. The checker evaluates those readers from '
            'the syntax tree on the literal tables for every one of the 12x60 keys of each table (2160 keys, 3600 lookups): decoding never '
            'panics, every raw index (observed before from_index can wrap it) is inside its name list, every day has a spirit, recommended '
            'and avoided sets are disjoint; the auspicious/ominous split and all kitchen-god attributes are exhaustive tables against oracles. '
            'Exhaustive for the statement; which key a real date produces is C07/C08/C09.',
            'Trusted: syn, checker/pete.py semantics, python `re` agreeing with the regex crate on `;XX(.[^;]*)` over ASCII data, the partial '
            'auspicious/ominous oracle (only undisputed names are judged). A reader rewritten outside the evaluator envelope fails closed (UNANALYSABLE).',
            'DESIGN.md §3 C18'),
    'C17': ('finite-domain table evaluation (PETE) with symbolic day-line inputs; sibling agreement of duplicated code',
            'Day officer, twelve spirits (day and hour), 28 mansions (+1/day, luminary = weekday), six-day star incl. leap months, moon phase, '
            'minor Ren, year nine star for every year -1..9999, month nine star for all year/month pillars, hour nine star and the piecewise '
            'day nine star for every solstice pillar are evaluated from the syntax tree as exhaustive tables and compared with the classical '
            'rules; the lunar-view and sexagenary-view copies are each checked. Civil days enter only as points of Z (day-line model).',
            'Assumes the day-line abstraction (C01/C07): consecutive integers, pillar (n+49) mod 60, weekday (n+1) mod 7. Not decided: on which '
            'civil days the solstices fall (numeric), and the day star before the first turning day of a civil year beyond the -1/day recurrence. Known finding: the day star panics for every day of year 1 (RANGE-END).',
            'DESIGN.md §3 C17'),
    'C08': ('PETE tables (Five Tigers) + real switching code evaluated on scenario calendars with the numeric layer replaced by oracles',
            'Five-Tigers first-month / month pillars for all 60 year pillars (both copies); the sexagenary-month carry incl. year 0; and the real '
            'year/month switching code of the day view (every day of a year x 5 positions of the lunar new year relative to Lichun) and of the '
            'instant view (all critical instants around the 12 Jie, comparator levels second/minute/hour exercised) are evaluated from the syntax '
            'tree and compared with the Lichun/Jie rule; the two views are compared on every day without a Jie; the lunar-date twins and both eight-character providers carry the same pillars; both views on the first days of 0001 and the last days of 9999 (RANGE-END).',
            'The numeric layer (civil date<->day number, term days/instants, lunar month table) is replaced by independent stand-ins, so the verdict is '
            'about the switching structure, not about on which civil day a term falls (C05/C06). Scenario calendars are synthetic but respect the real '
            'calendar\'s ordering constraints (new year within Jan 21..Feb 20).', 'DESIGN.md §3 C08'),
    'C09': ('PETE exhaustive 60x24 tables; wiring tables; inverse search evaluated on a 75-year scenario calendar',
            'Hour pillar (branch, Five-Rats stem, 23:00 roll) for all 60 day pillars x 24 hours in the lunar view and on a scenario calendar in the '
            'instant view; slot indices; the eight characters are (year, month, day, hour) in order through the constructor and both providers; '
            'the inverse search is evaluated for 258 (instant, year range) samples covering every double-hour, Jie days, year ends and range edges: '
            'every returned instant has the requested characters and one lies inside the originating double-hour; the same at both ends of the calendar (known finding: instants of year 1 before Lichun are never found).',
            'Numeric layer replaced by oracles as in C08. Completeness of the inverse search over arbitrary ranges on the real calendar is not decided.',
            'DESIGN.md §3 C09'),
    'C15': ('real series code evaluated by PETE on scenario calendars (numeric layer replaced by oracles) vs piecewise oracles',
            'Nines (every day of a year, 16 solstice placements incl. mid-December solstices), Dog days (60 scenarios: every stem of the solstice '
            'day x 6 start-of-autumn placements, every day June..September, both 10/20-day branches), Plum rains (120 scenarios: every stem/branch '
            'of the two anchoring days), pentads and term-day index (every day of a year) and the commanding-stem allotment (12 months x every day '
            'index) are evaluated from the syntax tree and compared with the defining rules; the classical allotment table is an independent oracle.',
            'Numeric layer replaced by oracles: which civil day a term falls on and which day is Geng/Bing/Wei on the real calendar are C05/C06/C07. '
            'Pentad names are only required to be 72 distinct names.', 'DESIGN.md §3 C15'),
    'C01': ('exhaustive guard-bounded tables (PETE), who-may-construct from the syntax tree, Julian-day formulas tabulated per (year, month) with a structural additivity lemma',
            'Leap rule and year length for every year, month length for all 119,988 (year, month) pairs, the acceptance grid of SolarDay::new over '
            '(20 year classes x 12 months x day 0..33) against calendar existence, the before/after/== decision table, who-may-construct for 13 guarded types, '
            'and the two Julian-day float formulas evaluated at the first (forward) and first+last (backward) day of every month 0001-01..9999-12 against an '
            'integer calendar oracle; a syntactic lemma shows the day enters the forward formula only additively, so month granularity decides every date. '
            'Stepping, subtraction and day-of-year are evaluated around month ends, leap days and the 1582 gap.',
            'Per-day enumeration (3.65 M dates) is refused as a runtime test; the residual risk is an error island strictly inside a month of the inverse formula that '
            'vanishes at both month ends. The (year, month) table is the largest finite table used (see DESIGN §1.2 amendment). Trusted: python IEEE-754 doubles = Rust f64 for + - * / and truncation.',
            'DESIGN.md §3 C01'),
    'C12': ('integer carry code evaluated on carry-boundary tables; comparator decision table; real Julian-date float formulas on sampled instants',
            'SolarTime::next for 11 base instants x 39 step sizes around every unit (second..year, the 1582 gap), subtract/before/after on 289 pairs, the '
            'comparator over all 81 order types, the guard grid, instant->Julian date->instant on ~12,600 sampled instants (every second of 23:00-24:00 on a month end and at the gap; strides elsewhere; '
            '12 calendar corner days) and fractional Julian dates just below every carry boundary (valid instant within 0.5 s).',
            'Day layer replaced by the calendar oracle for the integer code (C01 decides it). Round trip for every second of every day is sampled, not exhaustive.', 'DESIGN.md §3 C12'),
    'C13': ('container listings evaluated by PETE (civil: real calendar via oracle day count; lunar/sexagenary: scenario calendars)',
            'Civil nesting (year/half/season/month) as a closed system, month -> exactly the existing dates for 120 months incl. October 1582, day-of-year = position in the '
            'concatenated lists, lunar year -> 12/13 months incl. a leap month, lunar month -> days, lunar day -> 13 slots (regular and leap month), sexagenary day -> 12 slots from 23:00, '
            'sexagenary month -> days between consecutive Jie days.',
            'Lunar month lengths and term days are scenario inputs (C03, C05/C06), except the fitted new-moon table (TABLES-FIT, shared with C03: known finding 236-12) and the month list of the last lunar year (RANGE-END).', 'DESIGN.md §3 C13'),
    'C14': ('week code evaluated by PETE on calendar months for every start weekday and week index',
            'For 96+ civil months (all weekday/length combinations, October 1582) x 7 week starts: count, first day on the chosen weekday, seven consecutive days, 7 days apart, coverage; '
            'week-of-date contains the date for every day of 4 sample years incl. 1582; stepping by n moves the first day 7n days (1088 cases); index in year; the same for lunar months on a '
            'scenario calendar with two leap months (952 stepping cases).',
            'Civil date <-> day number replaced by the calendar oracle (C01); real lunar month boundaries are numeric (C03).', 'DESIGN.md §3 C14'),
    'C16': ('child-limit pipeline and fortune getters evaluated by PETE on a scenario calendar for dense birth instants x gender',
            'Direction truth table, governing Jie by instant (incl. births on a Jie day before/after the instant), the five exchange rates, calendar addition with chained carries, '
            'the China95 and sect-2 strategies, decade and yearly fortune affine forms: ~1,360 evaluated (birth, gender) points against the statement. The October-1582 addition defect is a listed known finding.',
            'Numeric layer replaced by oracles (C01, C05/C06, C02/C03). All four shipped strategies are judged (the day / double-hour strategy against its documented rule); sibling fortune accessors must agree with the decade / yearly rule.', 'DESIGN.md §3 C16'),
    'C02': ('comparator decision tables; guards; both conversion directions evaluated (real search loop) on tiling scenario calendars; leap-table and solstice-anchor rules on the month records',
            'Lunar before/after/== over all order types incl. a month and its leap twin (day and hour level); constructor guards; civil->lunar->civil and lunar->civil->lunar are the '
            'identity and order preserving for every day and every lunar date of two scenario years with leap months, using the repository\'s own search loop; the stored leap table and the '
            'solstice-month anchoring of the month records are checked as in C03/C04.',
            'The scenario month records tile by construction; for the REAL records the cross-year lunation-count identity is checked for every year (TILE-CHAIN; known findings at lunar years 8/9, 23/24, 24/25). The break at 239/240 is outside reach (DESIGN 10.3); day-level new-moon values are numeric.',
            'DESIGN.md §3 C02'),
    'C03': ('packed-table analysis (TABLES) + real LunarMonth::new/next evaluated with the new-moon series stubbed + uniform-lunation model for the solstice anchor',
            'The leap-month table decoded by its own initialiser: 12 columns, strictly increasing years in range, no year under two months, 2-3 year intercalation gaps outside the code\'s own reform windows, '
            '7+-1 leap months per 19 years; leap lookup for every year -1..9999; guards and month<->position maps of LunarMonth::new/next for all 13 leap positions; "next month starts where this one ends" '
            'stride agreement; month 1 placed 2 (3) lunations after the lunation containing the winter solstice for all 30 lunar phases (model).',
            'Consecutive lunar years abut as a lunation-count identity for every year 0..9998 (TILE-CHAIN; known findings at 8/9, 23/24, 24/25). The month list / month count / day count of a year for every leap position 1..12 (scenario); lunation lengths served by the fitted new-moon table over its whole range (TABLES-FIT; known finding: 28-day month 236-12). Not decided: 29/30-day lengths from the series, the 239/240 break.', 'DESIGN.md §3 C03'),
    'C04': ('packed-table necessary conditions + uniform-lunation model of the solstice-month anchoring (thin)',
            'Only necessary conditions: the stored leap table\'s order/uniqueness/intercalation rhythm, and that LunarMonth::new anchors month numbering on the lunation containing the winter solstice '
            '(evaluated against a uniform-lunation model for every lunar phase at the solstice, incl. a new moon on the solstice day); the cross-year lunation-count identity for every year outside the code\'s own reform windows; the year listing for every leap position.',
            'Whether the table and offsets agree with the library\'s own new-moon and major-term days is a relation between a literal and two float series and is NOT decided.', 'DESIGN.md §3 C04'),
    'C05': ('structural rules on literals and solver shape (thin): spline continuity at its own knots, table shapes/index bounds, correction-string coverage, solver structure',
            'TT-UT spline continuous within 5 s at all joins; series tables well-shaped and every loop index in bounds for every term-count argument; fit tables monotone with plausible rates; '
            'correction strings over {0,1,2} and longer than the largest formable index; last Newton step uses the full series; the day-level solvers fall back to the precise solver within 300 s of civil midnight and hand TT-UT a DAY value on every path (units); a term built by name, by index or by stepping is the same term (constructor agreement and floor carries, series stubbed).',
            'No accuracy clause of the statement is decided (series values). The series code is evaluated only for index behaviour / at the knots of its own tables.', 'DESIGN.md §3 C05'),
    'C06': ('sibling-constructor agreement under stubs; carry tables; day->term / instant->term searches evaluated on scenario calendars with modern, Julian-era and far-future term placements',
            'The two term constructors agree on (year, index, day-level JD) under two series stubs; stepping and constructing by index carry by floor incl. year 0; Jie/Qi parity; every civil day of a year and '
            'all critical instants are assigned the latest term starting on or before them with day index from 0, for four placements of the term days (incl. terms 0.3 s before midnight) and a day table that is a day off the precise instant; the first days of 0001 and the last days of 9999 (RANGE-END).',
            'Spacing/ordering of real term instants and the max day index 16 are series values (C05) and not decided.', 'DESIGN.md §3 C06'),
    'C07': ('residue-class anchor tables; all routes to pillar/weekday evaluated on scenario calendars; Julian-day formulas tabulated per (year, month)',
            'Pillar = (day number + 49) mod 60 from the lunar date for 320 (first day, day) pairs incl. range ends; weekday = (day number + 1) mod 7; every public route (lunar date, sexagenary day, instant view, civil date) '
            'agrees and advances by one per day over ~470 consecutive days incl. lunar month ends, year ends and the 1582 cut-over, and on the first days of 0001 / last days of 9999; the civil date->day number link is tabulated for all 119,988 months in both directions.',
            'Scenario lunar months tile by construction (real tiling is C03).', 'DESIGN.md §3 C07'),
    'C11': ('per-type sibling checks for 42 cycle types; Euclidean helper table; carry tables for linear units; lunar stepping on a scenario calendar',
            'Each cycle type is wired to its own name table in both constructors, has Euclidean indices, next() is a group action, name lookup is the inverse of get_name (first match) and unknown names are refused; '
            'year/half-year/season/month/term carries are floor carries wherever accepted (incl. terms around year 0); lunar month/day/hour stepping obeys next(a).next(b)=next(a+b) on a scenario calendar with two leap months; lunar months jump by up to +-705 along the stored table; a sexagenary hour stepped by n seconds is the value of the instant n seconds later (across every Jie); enum and term by-name lookups are inverse to their names. '
            'Duplicate names in PHASE_NAMES are a listed known finding.',
            'Group laws on the real lunar calendar need the real month records (C03).', 'DESIGN.md §3 C11'),
    'C20': ('festival lookups evaluated on literal tables over the whole key space; lunar festivals on scenario calendars; legal-holiday literal grammar + readers over every date',
            'Civil festivals over all 366 month-days x founding-year neighbourhoods; by index; carries; lunar festivals by index and by date for 4 scenario calendars (incl. a leap 12th month) with the earlier-listed rule; '
            'the holiday literal: 13-char grammar, real dates, strictly increasing, offsets land on rest days; from_ymd over every date of the covered years; next(+-1) for every record and longer steps.',
            'Civil dates of lunar festivals on the real calendar are numeric.', 'DESIGN.md §3 C20'),
    'C10': ('whole-crate effect / lock / ownership analysis on type-checked MIR (rustc_private driver) + memo-transparency evaluation with a stub constructor + syntactic rules for RefCell memo cells',
            'Inventory of every static (interior mutability, static mut, thread_local, unsafe) against a frozen list with reasons; who-may-touch per mutable static; strategy boxes never written by library code; '
            'the one memo is transparent (injective key over 33k keys incl. all digit-concatenation and affine collision families, value = f(args), writer/reader field agreement, one critical section, never shrinks, refusals store nothing); '
            'for every guard: no panic-capable callee while it is live unless the acquisition tolerates poisoning; no re-entrancy; lock order acyclic (dyn calls expanded to all impls); no clock/env/fs/net/thread/rng callee among all call sites; '
            'hash-map iteration only where the leap table\'s uniqueness makes order irrelevant; values with RefCell memo cells are only built with empty cells in their constructor, never copied (struct update, clone-then-assign), each cell has one writer and is read only by the getter that fills it; no non-blocking acquisition without a blocking fall-back; every blocking acquisition yields its guard through a recognised idiom; the hash-map reader is evaluated for every year under three iteration orders.',
            'Trusted: rustc nightly MIR and callee resolution; std Mutex/RefCell semantics. OS scheduling itself needs no argument once these hold. User-installed providers are outside the statement.',
            'DESIGN.md §3 C10'),
}

PENDING_REASON = 'check not built yet (DESIGN.md gives the planned static clauses); will be claimed once its rule engine exists'
NOT_APPLICABLE = {}


SHARED_DESC = {
    'month_records': 'lunar month records (stored leap table order/uniqueness/intercalation rhythm, solstice-month anchoring against a uniform-lunation model, month length = distance to the next new-moon day for 28..31-day gaps, transparency of the month memo over a collision-closed key set, memo-cell constructor / copy / reader / foreign-write rules)',
    'jd_tables': 'civil date <-> day number (additivity lemma + both Julian-day formulas at the ends of all 119,988 months, the date / instant accessors agreeing with them) and Julian date -> clock (round trip, seconds rounding and the 60 -> minute -> hour -> next-day carries on ~12,900 sampled instants)',
    'solver_structure': 'day-level term / new-moon solvers fall back to the precise solver near civil midnight; full series in the last Newton step',
    'effect_inventory': 'inventory of process-wide mutable state from MIR (no static with interior mutability, thread_local or unsafe beyond the frozen list)',
}


def shared_of(pid):
    import re
    p = os.path.join(VERIF, 'checker', 'rules', pid.lower() + '.py')
    txt = open(p, encoding='utf-8').read()
    if pid == 'C04':
        txt += open(os.path.join(VERIF, 'checker', 'rules', 'c03.py'), encoding='utf-8').read()
    return sorted(set(re.findall(r"ctx\.include\('(\w+)'", txt)))


def main():
    props = [json.loads(l) for l in open(os.path.join(VERIF, 'properties.jsonl'), encoding='utf-8')]
    checks = []
    na = []
    for p in props:
        pid = p['id']
        if pid in CLAIMS:
            tech, text, note, ref = CLAIMS[pid]
            checks.append({
                'property_id': pid,
                'quick_cmd': './check %s --tier quick' % pid,
                'thorough_cmd': './check %s --tier thorough' % pid,
                'evidence_file': 'evidence/%s.json' % pid,
                'replay_cmd_template': './check %s --replay {path}' % pid,
                'engine': 'checker',
                'level_claimed': {'category': 'other', 'text': text + ' Shared rule bundles included (computed once per source hash): ' + '; '.join('%s = %s' % (n, SHARED_DESC.get(n, n)) for n in shared_of(pid)) + '.', 'design_ref': ref},
                'level_note': note,
                'technique': tech,
            })
        else:
            na.append({'property_id': pid, 'reason': NOT_APPLICABLE.get(pid, PENDING_REASON)})
    m = {
        'version': 1,
        'setup_cmd': './setup.sh',
        'hooks': {
            'guard': 'tyme4rs_verif',
            'enable': 'none needed: every check is static and reads /repo\'s working tree (no instrumentation in /repo)',
            'baseline_off_cmd': 'cd /repo && cargo test --workspace --no-fail-fast --offline',
            'source_commits': [],
            'add_only': True,
        },
        'engines': [
            {'name': 'srcfacts', 'path': 'tools/srcfacts', 'kind_free_text': 'syn-based syntax-tree extractor (Rust); parses every file reachable from src/lib.rs',
             'serves_properties': sorted(CLAIMS)},
            {'name': 'mirfacts', 'path': 'tools/mirfacts', 'kind_free_text': 'rustc_private driver run as RUSTC_WORKSPACE_WRAPPER under cargo +nightly check: resolved call graph, CFG/dominators, aggregates, guards, statics',
             'serves_properties': [c for c in sorted(CLAIMS) if c in MIR_USERS]},
            {'name': 'checker', 'path': 'checker', 'kind_free_text': 'Python rule engines (PETE finite-domain evaluator, TABLES, CMP, CONSTRUCT, CARRY, EFFECT, FLOW, SIB ...), oracles, evidence writer',
             'serves_properties': sorted(CLAIMS)},
        ],
        'checks': checks,
        'notes': 'Static analysis only: verdicts are computed from /repo\'s source text, syntax tree and type-checked MIR; see DESIGN.md. '
                 'Known genuine findings are listed in known_findings.txt and printed as KNOWN-FINDING lines.',
        'not_applicable': na,
    }
    with open(os.path.join(VERIF, 'MANIFEST.json'), 'w', encoding='utf-8') as fh:
        json.dump(m, fh, indent=1, ensure_ascii=False)
    print('MANIFEST: %d claimed, %d not applicable/pending' % (len(checks), len(na)))


MIR_USERS = set('C%02d' % i for i in range(1, 21))

if __name__ == '__main__':
    main()
