#!/usr/bin/env python3
"""Regenerates /verif/MANIFEST.json from the table below (single source of truth for claims)."""
import json
import os

VERIF = os.path.dirname(os.path.dirname(os.path.abspath(__file__)))

# id -> (technique, level text, level note, design ref)
CLAIMS = {
    'C19': ('finite-domain table evaluation (PETE) of attribute getters from the syntax tree vs first-principles oracles',
            'Every stem/branch/cycle attribute getter named by the property is a finite function of cycle indices. The checker '
            'evaluates each one from the syntax tree over its whole domain (10, 12, 10x10, 10x12, 60, 28, 9, 366 month-days) and '
            'compares the table with a name-level first-principles oracle; involution / inverse-pair laws are checked over the '
            'whole domain. Exhaustive for the statement: nothing in it depends on dates.',
            'Trusted: syn parser, the checker\'s Rust-integer semantics (checker/pete.py), the hand-written oracle tables under '
            '/verif/oracles (each next to the classical sentence it encodes). A getter rewritten in a form outside the evaluator\'s '
            'envelope is reported UNANALYSABLE and fails closed.', 'DESIGN.md §3 C19'),
    'C18': ('reader evaluation over the whole finite key space of the packed literal tables (TABLES/PETE)',
            'The three packed almanac tables are read by hand-written slicing/regex code. The checker evaluates those readers from '
            'the syntax tree on the literal tables for every one of the 12x60 keys of each table (2160 keys, 3600 lookups): decoding never '
            'panics, every raw index (observed before from_index can wrap it) is inside its name list, every day has a spirit, recommended '
            'and avoided sets are disjoint; the auspicious/ominous split and all kitchen-god attributes are exhaustive tables against oracles. '
            'Exhaustive for the statement; which key a real date produces is C07/C08/C09.',
            'Trusted: syn, checker/pete.py semantics, python `re` agreeing with the regex crate on `;XX(.[^;]*)` over ASCII data, the partial '
            'auspicious/ominous oracle (only undisputed names are judged). A reader rewritten outside the evaluator envelope fails closed (UNANALYSABLE).',
            'DESIGN.md §3 C18'),
    'C17': ('finite-domain table evaluation (PETE) with symbolic day-line inputs; sibling agreement of duplicated code',
            'Day officer, twelve spirits (day and hour), 28 mansions (+1/day, luminary = weekday), six-day star incl. leap months, moon phase, '
            'minor Ren, year nine star for every year -1..9999, month nine star for all year/month pillars, hour nine star and the piecewise '
            'day nine star for every solstice pillar are evaluated from the syntax tree as exhaustive tables and compared with the classical '
            'rules; the lunar-view and sexagenary-view copies are each checked. Civil days enter only as points of Z (day-line model).',
            'Assumes the day-line abstraction (C01/C07): consecutive integers, pillar (n+49) mod 60, weekday (n+1) mod 7. Not decided: on which '
            'civil days the solstices fall (numeric), and the day star before the first turning day of a civil year beyond the -1/day recurrence.',
            'DESIGN.md §3 C17'),
}

PENDING_REASON = 'check not built yet (DESIGN.md gives the planned static clauses); will be claimed once its rule engine exists'
NOT_APPLICABLE = {}


def main():
    props = [json.loads(l) for l in open(os.path.join(VERIF, 'properties.jsonl'), encoding='utf-8')]
    checks = []
    na = []
    for p in props:
        pid = p['id']
        if pid in CLAIMS:
            tech, text, note, ref = CLAIMS[pid]
            checks.append({
                'property_id': pid,
                'quick_cmd': './check %s --tier quick' % pid,
                'thorough_cmd': './check %s --tier thorough' % pid,
                'evidence_file': 'evidence/%s.json' % pid,
                'replay_cmd_template': './check %s --replay {path}' % pid,
                'engine': 'checker',
                'level_claimed': {'category': 'other', 'text': text, 'design_ref': ref},
                'level_note': note,
                'technique': tech,
            })
        else:
            na.append({'property_id': pid, 'reason': NOT_APPLICABLE.get(pid, PENDING_REASON)})
    m = {
        'version': 1,
        'setup_cmd': './setup.sh',
        'hooks': {
            'guard': 'tyme4rs_verif',
            'enable': 'none needed: every check is static and reads /repo\'s working tree (no instrumentation in /repo)',
            'baseline_off_cmd': 'cd /repo && cargo test --workspace --no-fail-fast --offline',
            'source_commits': [],
            'add_only': True,
        },
        'engines': [
            {'name': 'srcfacts', 'path': 'tools/srcfacts', 'kind_free_text': 'syn-based syntax-tree extractor (Rust); parses every file reachable from src/lib.rs',
             'serves_properties': sorted(CLAIMS)},
            {'name': 'mirfacts', 'path': 'tools/mirfacts', 'kind_free_text': 'rustc_private driver run as RUSTC_WORKSPACE_WRAPPER under cargo +nightly check: resolved call graph, CFG/dominators, aggregates, guards, statics',
             'serves_properties': [c for c in sorted(CLAIMS) if c in MIR_USERS]},
            {'name': 'checker', 'path': 'checker', 'kind_free_text': 'Python rule engines (PETE finite-domain evaluator, TABLES, CMP, CONSTRUCT, CARRY, EFFECT, FLOW, SIB ...), oracles, evidence writer',
             'serves_properties': sorted(CLAIMS)},
        ],
        'checks': checks,
        'notes': 'Static analysis only: verdicts are computed from /repo\'s source text, syntax tree and type-checked MIR; see DESIGN.md. '
                 'Known genuine findings are listed in known_findings.txt and printed as KNOWN-FINDING lines.',
        'not_applicable': na,
    }
    with open(os.path.join(VERIF, 'MANIFEST.json'), 'w', encoding='utf-8') as fh:
        json.dump(m, fh, indent=1, ensure_ascii=False)
    print('MANIFEST: %d claimed, %d not applicable/pending' % (len(checks), len(na)))


MIR_USERS = set()

if __name__ == '__main__':
    main()
