#!/usr/bin/env python3
"""usage: wave_matrix.py <wave dir> <verify results file> [out json] — run each property's own check on every VERIFIED change of a wave"""
import json, os, re, subprocess, sys
wd, resf = sys.argv[1], sys.argv[2]
outp = sys.argv[3] if len(sys.argv) > 3 else wd + '/matrix.json'
out = json.load(open(outp)) if os.path.exists(outp) else {}
ok = {}
for line in open(resf):
    m = re.match(r'^(C\d+)/([ABC]) ', line)
    if not m:
        continue
    good = '272 passed' in line and 'ok.' in line.split('demo_on_HEAD')[-1].split('demo_with_patch')[0] and 'FAILED' in line.split('demo_with_patch')[-1] and 'build_msgs=0' in line
    ok[(m.group(1), m.group(2))] = good
WT = os.environ.get('MATRIX_WT', '/tmp/mxwt2')      # patches are applied in a scratch worktree read through VERIF_REPO; /repo is never modified
if not os.path.isdir(WT):
    subprocess.run(['git', '-C', '/repo', 'worktree', 'add', '-q', '--detach', WT, 'HEAD'], check=True)
subprocess.run(['git', '-C', WT, 'checkout', '-q', '--', '.'], check=True)
subprocess.run(['git', '-C', WT, 'checkout', '-q', '--detach', subprocess.run(['git', '-C', '/repo', 'rev-parse', 'HEAD'], stdout=subprocess.PIPE, universal_newlines=True).stdout.strip()], check=True)
ENV = dict(os.environ, VERIF_REPO=WT)
for (pid, v), good in sorted(ok.items()):
    key = pid + v
    if key in out:
        continue
    if not good:
        out[key] = {'verified': False}
        print(key, 'NOT VERIFIED'); continue
    patch = '%s/%s.out/%s/patch.diff' % (wd, pid, v)
    if subprocess.run(['git', '-C', WT, 'apply', patch]).returncode != 0:
        out[key] = {'verified': True, 'error': 'does not apply'}; continue
    try:
        c = subprocess.run(['/verif/check', pid], stdout=subprocess.PIPE, stderr=subprocess.STDOUT, universal_newlines=True, cwd='/verif', env=ENV)
        keys = re.findall(r'rule=(\S+) key=(\S+)', c.stdout)
        out[key] = {'verified': True, 'rc': c.returncode, 'violations': ['%s %s' % k for k in keys], 'unanalysable': 'UNANALYSABLE' in c.stdout}
    finally:
        subprocess.run(['git', '-C', WT, 'checkout', '--', '.'])
    print(key, out[key].get('rc'), out[key].get('violations', [])[:2], 'UNANALYSABLE' if out[key].get('unanalysable') else '', flush=True)
    json.dump(out, open(outp, 'w'), indent=1, sort_keys=True)
json.dump(out, open(outp, 'w'), indent=1, sort_keys=True)
ver = [k for k, v in out.items() if v.get('verified')]
miss = [k for k in ver if out[k].get('rc') != 1]
print('verified %d, detected %d, missed: %s' % (len(ver), len(ver) - len(miss), miss))
