#![feature(rustc_private)]
// mirfacts: rustc_private driver used as RUSTC_WORKSPACE_WRAPPER. For the crate `tyme4rs` it dumps, per function body:
// resolved callees, statics referenced, guard-typed locals with the calls made while the guard is live, unsafe use,
// aggregate constructions; plus the inventory of statics and impls of Sync/Send. Everything else compiles normally.
extern crate rustc_driver;
extern crate rustc_hir;
extern crate rustc_interface;
extern crate rustc_middle;
extern crate rustc_span;

use rustc_driver::Callbacks;
use rustc_hir::def::DefKind;
use rustc_hir::def_id::LOCAL_CRATE;
use rustc_interface::interface::Compiler;
use rustc_middle::mir::{self, Operand, Rvalue, StatementKind, TerminatorKind};
use rustc_middle::ty::{self, TyCtxt};
use std::collections::{BTreeSet, HashSet};
use std::fmt::Write;

struct Cb;

fn esc(s: &str) -> String {
  let mut o = String::new();
  for c in s.chars() {
    match c {
      '"' => o.push_str("\\\""),
      '\\' => o.push_str("\\\\"),
      '\n' => o.push_str("\\n"),
      c if (c as u32) < 0x20 => { let _ = write!(o, "\\u{:04x}", c as u32); }
      c => o.push(c),
    }
  }
  o
}

fn jlist(v: &[String]) -> String {
  let mut o = String::from("[");
  for (i, s) in v.iter().enumerate() {
    if i > 0 { o.push(','); }
    let _ = write!(o, "\"{}\"", esc(s));
  }
  o.push(']');
  o
}

fn callee_name<'tcx>(tcx: TyCtxt<'tcx>, caller: rustc_hir::def_id::DefId, func: &Operand<'tcx>) -> Option<String> {
  if let Operand::Constant(c) = func {
    if let ty::FnDef(def, args) = c.const_.ty().kind() {
      let env = ty::TypingEnv::post_analysis(tcx, caller);
      if let Ok(Some(inst)) = ty::Instance::try_resolve(tcx, env, *def, args) {
        return Some(tcx.def_path_str(inst.def_id()));
      }
      return Some(tcx.def_path_str(*def));
    }
  }
  None
}

fn statics_in_operand<'tcx>(tcx: TyCtxt<'tcx>, op: &Operand<'tcx>, out: &mut BTreeSet<String>) {
  if let Operand::Constant(c) = op {
    if let mir::Const::Val(mir::ConstValue::Scalar(rustc_middle::mir::interpret::Scalar::Ptr(p, _)), _) = c.const_ {
      if let rustc_middle::mir::interpret::GlobalAlloc::Static(did) = tcx.global_alloc(p.provenance.alloc_id()) {
        out.insert(tcx.def_path_str(did));
      }
    }
  }
}

impl Callbacks for Cb {
  fn after_analysis<'tcx>(&mut self, _c: &Compiler, tcx: TyCtxt<'tcx>) -> rustc_driver::Compilation {
    let name = tcx.crate_name(LOCAL_CRATE).to_string();
    if name != "tyme4rs" {
      return rustc_driver::Compilation::Continue;
    }
    let out_path = match std::env::var("MIRFACTS_OUT") { Ok(p) => p, Err(_) => return rustc_driver::Compilation::Continue };
    let mut fns: Vec<String> = vec![];
    let mut n_calls = 0usize;
    for ldid in tcx.mir_keys(()) {
      let did = ldid.to_def_id();
      let kind = tcx.def_kind(did);
      let is_fn = matches!(kind, DefKind::Fn | DefKind::AssocFn);
      let is_closure = matches!(kind, DefKind::Closure);
      if !is_fn && !is_closure { continue; }
      let body = tcx.optimized_mir(did);
      let path = tcx.def_path_str(did);
      let span = tcx.def_span(did);
      let loc = tcx.sess.source_map().span_to_diagnostic_string(span);
      let mut calls: Vec<String> = vec![];
      let mut statics: BTreeSet<String> = BTreeSet::new();
      let mut aggregates: BTreeSet<String> = BTreeSet::new();
      let mut asserts = 0usize;
      let mut a_bounds = 0usize;
      let mut a_div = 0usize;
      // guard-typed locals
      let mut guards: Vec<(usize, String)> = vec![];
      for (li, decl) in body.local_decls.iter_enumerated() {
        let ts = format!("{}", decl.ty);
        if ts.contains("MutexGuard<") || ts.contains("RwLockWriteGuard<") || ts.contains("RwLockReadGuard<") {
          if !ts.starts_with("std::result::Result") && !ts.starts_with("&") && !ts.contains("PoisonError") {
            guards.push((li.as_usize(), ts));
          }
        }
      }
      // per block: call name (if any), successors
      let nb = body.basic_blocks.len();
      let mut blk_call: Vec<Option<String>> = vec![None; nb];
      let mut blk_succ: Vec<Vec<usize>> = vec![vec![]; nb];
      let mut blk_defs: Vec<Option<usize>> = vec![None; nb];   // local defined by the call terminator
      let mut blk_drop: Vec<Option<usize>> = vec![None; nb];   // local dropped by the terminator
      let mut blk_cleanup: Vec<bool> = vec![false; nb];
      let mut blk_assert: Vec<bool> = vec![false; nb];
      let mut moves: Vec<(usize, usize, usize)> = vec![];       // (block, dst local, src local) for plain moves of guard locals
      for (bi, bb) in body.basic_blocks.iter_enumerated() {
        let b = bi.as_usize();
        blk_cleanup[b] = bb.is_cleanup;
        for st in bb.statements.iter() {
          if let StatementKind::Assign(bx) = &st.kind {
            let (place, rv) = &**bx;
            match rv {
              Rvalue::Use(op, ..) => {
                statics_in_operand(tcx, op, &mut statics);
                if let Operand::Move(src) | Operand::Copy(src) = op {
                  if place.projection.is_empty() && src.projection.is_empty() {
                    moves.push((b, place.local.as_usize(), src.local.as_usize()));
                  }
                }
              }
              Rvalue::Aggregate(kind, ops) => {
                if let mir::AggregateKind::Adt(adt_did, ..) = **kind {
                  aggregates.insert(tcx.def_path_str(adt_did));
                }
                for o in ops.iter() { statics_in_operand(tcx, o, &mut statics); }
              }
              Rvalue::Cast(_, op, _) => statics_in_operand(tcx, op, &mut statics),
              Rvalue::BinaryOp(_, ops) => { statics_in_operand(tcx, &ops.0, &mut statics); statics_in_operand(tcx, &ops.1, &mut statics); }
              Rvalue::UnaryOp(_, op) => statics_in_operand(tcx, op, &mut statics),
              _ => {}
            }
          }
        }
        if let Some(term) = &bb.terminator {
          for s in term.successors() { blk_succ[b].push(s.as_usize()); }
          match &term.kind {
            TerminatorKind::Call { func, args, destination, .. } => {
              if let Some(n) = callee_name(tcx, did, func) {
                calls.push(n.clone());
                blk_call[b] = Some(n);
                n_calls += 1;
              } else {
                blk_call[b] = Some("<indirect>".to_string());
                calls.push("<indirect>".to_string());
              }
              for a in args.iter() { statics_in_operand(tcx, &a.node, &mut statics); }
              if destination.projection.is_empty() { blk_defs[b] = Some(destination.local.as_usize()); }
            }
            TerminatorKind::Drop { place, .. } => {
              if place.projection.is_empty() { blk_drop[b] = Some(place.local.as_usize()); }
            }
            TerminatorKind::Assert { msg, .. } => {
              asserts += 1;
              match &**msg {
                mir::AssertKind::BoundsCheck { .. } => { a_bounds += 1; blk_assert[b] = true; }
                mir::AssertKind::DivisionByZero(_) | mir::AssertKind::RemainderByZero(_) => { a_div += 1; blk_assert[b] = true; }
                _ => {}
              }
            }
            _ => {}
          }
        }
      }
      // guard live regions: from the successor of the defining block until a Drop of that local (or of a local it was moved into)
      let mut guard_json: Vec<String> = vec![];
      for (gl, gty) in guards.iter() {
        // alias set through plain moves
        let mut alias: HashSet<usize> = HashSet::new();
        alias.insert(*gl);
        let mut changed = true;
        while changed {
          changed = false;
          for (_, dst, src) in moves.iter() {
            if alias.contains(src) && !alias.contains(dst) { alias.insert(*dst); changed = true; }
          }
        }
        let mut start: Vec<usize> = vec![];
        let mut def_call = String::new();
        for b in 0..nb {
          if let Some(d) = blk_defs[b] { if d == *gl {
            if let Some(c) = &blk_call[b] { def_call = c.clone(); }
            for s in blk_succ[b].iter() { if !blk_cleanup[*s] { start.push(*s); } }
          } }
        }
        for (b, dst, _src) in moves.iter() { if *dst == *gl { start.push(*b); } }
        if start.is_empty() { continue; }
        let mut seen: HashSet<usize> = HashSet::new();
        let mut work = start.clone();
        let mut under: Vec<String> = vec![];
        let mut asserts_under = 0usize;
        while let Some(b) = work.pop() {
          if !seen.insert(b) { continue; }
          if let Some(d) = blk_drop[b] { if alias.contains(&d) { continue; } }
          if let Some(c) = &blk_call[b] { under.push(c.clone()); }
          if blk_assert[b] { asserts_under += 1; }
          for s in blk_succ[b].iter() { if !blk_cleanup[*s] { work.push(*s); } }
        }
        under.sort(); under.dedup();
        guard_json.push(format!("{{\"local\":{},\"ty\":\"{}\",\"def_call\":\"{}\",\"calls_under\":{},\"asserts_under\":{}}}", gl, esc(gty), esc(&def_call), jlist(&under), asserts_under));
      }
      calls.sort(); calls.dedup();
      let statics_v: Vec<String> = statics.into_iter().collect();
      let aggs_v: Vec<String> = aggregates.into_iter().collect();
      let is_unsafe = if is_fn { tcx.fn_sig(did).skip_binder().safety().is_unsafe() } else { false };
      let vis = if is_fn { format!("{:?}", tcx.visibility(did)) } else { String::from("closure") };
      fns.push(format!("{{\"path\":\"{}\",\"loc\":\"{}\",\"kind\":\"{}\",\"calls\":{},\"statics\":{},\"aggregates\":{},\"guards\":[{}],\"asserts\":{},\"bounds_checks\":{},\"div_checks\":{},\"unsafe_fn\":{},\"vis\":\"{}\"}}",
        esc(&path), esc(&loc), if is_closure {"closure"} else {"fn"}, jlist(&calls), jlist(&statics_v), jlist(&aggs_v), guard_json.join(","), asserts, a_bounds, a_div, is_unsafe, esc(&vis)));
    }
    // statics inventory + impls
    let mut statics_json: Vec<String> = vec![];
    let mut impls_json: Vec<String> = vec![];
    let mut unsafe_blocks = 0usize;
    for id in tcx.hir_free_items() {
      let item = tcx.hir_item(id);
      let did = item.owner_id.to_def_id();
      match tcx.def_kind(did) {
        DefKind::Static { mutability, nested, .. } => {
          let ty = tcx.type_of(did).instantiate_identity().skip_normalization();
          let loc = tcx.sess.source_map().span_to_diagnostic_string(tcx.def_span(did));
          statics_json.push(format!("{{\"path\":\"{}\",\"ty\":\"{}\",\"mut\":{},\"nested\":{},\"loc\":\"{}\"}}", esc(&tcx.def_path_str(did)), esc(&format!("{}", ty)), mutability.is_mut(), nested, esc(&loc)));
        }
        DefKind::Impl { of_trait } => {
          if of_trait {
            let tr = tcx.impl_trait_ref(did).instantiate_identity().skip_normalization();
            let trn = tcx.def_path_str(tr.def_id);
            if trn.ends_with("Sync") || trn.ends_with("Send") || trn.contains("Deref") {
              let unsafety = format!("{:?}", tcx.impl_trait_header(did).safety);
              impls_json.push(format!("{{\"trait\":\"{}\",\"for\":\"{}\",\"safety\":\"{}\"}}", esc(&trn), esc(&format!("{}", tr.self_ty())), esc(&unsafety)));
            }
          }
        }
        _ => {}
      }
    }
    // unsafe blocks via THIR-free heuristic: count `unsafe` keyword blocks in HIR bodies
    for ldid in tcx.hir_body_owners() {
      let body = tcx.hir_body_owned_by(ldid);
      struct V { n: usize }
      impl<'v> rustc_hir::intravisit::Visitor<'v> for V {
        fn visit_block(&mut self, b: &'v rustc_hir::Block<'v>) {
          if let rustc_hir::BlockCheckMode::UnsafeBlock(src) = b.rules {
            if matches!(src, rustc_hir::UnsafeSource::UserProvided) && !b.span.from_expansion() { self.n += 1; }
          }
          rustc_hir::intravisit::walk_block(self, b);
        }
      }
      let mut v = V { n: 0 };
      rustc_hir::intravisit::Visitor::visit_body(&mut v, body);
      unsafe_blocks += v.n;
    }
    let json = format!("{{\"crate\":\"{}\",\"n_calls\":{},\"unsafe_blocks\":{},\"fns\":[{}],\"statics\":[{}],\"impls\":[{}]}}", esc(&name), n_calls, unsafe_blocks, fns.join(","), statics_json.join(","), impls_json.join(","));
    std::fs::write(&out_path, json).expect("write facts");
    rustc_driver::Compilation::Continue
  }
}

fn main() {
  let mut args: Vec<String> = std::env::args().collect();
  // RUSTC_WORKSPACE_WRAPPER passes the real rustc path as argv[1]
  if args.len() > 1 && (args[1].ends_with("rustc") || args[1].contains("/rustc")) {
    args.remove(1);
  }
  let mut cb = Cb;
  rustc_driver::run_compiler(&args, &mut cb);
}
