#!/bin/sh
# usage: tools/try_mutant.sh <patch.diff> <Cxx> [Cyy ...]   — apply to /repo, run checks, revert
P="$1"; shift
git -C /repo apply "$P" || { echo "PATCH DOES NOT APPLY: $P"; exit 2; }
for id in "$@"; do
  /verif/check "$id" > /tmp/try_$id.out 2>&1; rc=$?
  echo "[$id rc=$rc] $(grep -c '^VIOLATION' /tmp/try_$id.out) violation(s)"
  grep -A2 '^VIOLATION' /tmp/try_$id.out | head -12
done
git -C /repo checkout -- .
