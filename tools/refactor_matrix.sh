#!/bin/sh
# usage: refactor_matrix.sh <R index>  — applies each behaviour-preserving refactoring k of /tmp/rf/R<i>.out to the worktree /tmp/rf/R<i>
# and runs every check against that worktree (VERIF_REPO); prints one line per (refactoring, check) that is NOT silent
R=$1; W=/tmp/rf/R$R
for k in 1 2 3 4 5; do
  [ -f $W.out/$k.diff ] || continue
  git -C $W checkout -q -- . ; git -C $W apply $W.out/$k.diff || { echo "R$R.$k APPLY-FAILED"; continue; }
  for i in 01 02 03 04 05 06 07 08 09 10 11 12 13 14 15 16 17 18 19 20; do
    VERIF_REPO=$W /verif/check C$i > /tmp/rf/R${R}_${k}_C$i.out 2>&1; rc=$?
    if [ $rc -ne 0 ]; then echo "R$R.$k C$i rc=$rc $(grep -A2 '^VIOLATION' /tmp/rf/R${R}_${k}_C$i.out | grep -v '^VIOLATION' | head -2 | tr '\n' ' ' | cut -c1-400)"; fi
  done
  echo "R$R.$k done"
  git -C $W checkout -q -- .
done
