#!/usr/bin/env python3
"""usage: seed_store2.py <wave dir> <verify results> <suffix>  — store every verified change of a later wave as seeded/<Cxx><suffix><V>/"""
import json, os, re, shutil, sys
wd, resf, suf = sys.argv[1], sys.argv[2], sys.argv[3]
kinds = sys.argv[4] if len(sys.argv) > 4 else 'A literal/constant, B control flow in a main function, C shared helper'
n = 0
for line in open(resf):
    m = re.match(r'^(C\d+)/([ABC]) ', line)
    if not m:
        continue
    pid, v = m.group(1), m.group(2)
    good = '272 passed' in line and 'ok.' in line.split('demo_on_HEAD')[-1].split('demo_with_patch')[0] and 'FAILED' in line.split('demo_with_patch')[-1] and 'build_msgs=0' in line
    if not good:
        print('skip (not verified):', pid, v); continue
    src = '%s/%s.out/%s' % (wd, pid, v)
    d = '/verif/seeded/%s%s%s' % (pid, suf, v)
    os.makedirs(d, exist_ok=True)
    shutil.copy(src + '/patch.diff', d + '/patch.diff')
    shutil.copy(src + '/demo.rs', d + '/demo.rs')
    notes = open(src + '/notes.md', encoding='utf-8').read() if os.path.exists(src + '/notes.md') else ''
    meta = {'id': pid + suf + v, 'breaks_property': pid, 'author': 'independent sub-agent (wave %s) given only the property text and a scratch worktree; asked for kind %s (%s)' % (suf, v, kinds),
            'ported': False, 'needs_to_manifest': notes.strip()[:1500],
            'confirmed_by': 'tools/verify_seed.sh in a scratch worktree of /repo HEAD: patch applies, `cargo build` clean, `cargo test --lib` 272 passed, tests/demo.rs passes on HEAD and fails with the patch',
            'confirmation_output': line.strip()}
    json.dump(meta, open(d + '/meta.json', 'w', encoding='utf-8'), ensure_ascii=False, indent=1)
    n += 1
print('stored', n)
