#!/bin/sh
# usage: wave_verify.sh <wave-dir (e.g. /tmp/w2)> <results file>  — verifies every finished <Cxx>.out/<V> not yet in results
WD=$1; RES=$2; touch $RES
for d in $WD/C*.out; do
  id=$(basename $d .out)
  for v in A B C; do
    [ -f $d/$v/patch.diff ] && [ -f $d/$v/demo.rs ] || continue
    grep -q "^$id/$v " $RES && continue
    echo "$id $v $d/$v/patch.diff $d/$v/demo.rs"
  done
done > /tmp/wave_jobs.txt
[ -s /tmp/wave_jobs.txt ] && cat /tmp/wave_jobs.txt | xargs -P 6 -L 1 /verif/tools/verify_seed.sh >> $RES 2>&1
wc -l < $RES
