#!/bin/sh
# usage: negatives.sh <worktree> <result file> <diff> [<diff> ...]
# Applies each behaviour-preserving refactoring to a scratch worktree of /repo HEAD, confirms it builds and passes the library tests,
# and runs all 20 checks against it (VERIF_REPO). Prints one line per refactoring; any check that is not silent is listed.
W=$1; RES=$2; shift 2
[ -d "$W" ] || git -C /repo worktree add -q --detach "$W" HEAD
git -C "$W" checkout -q --detach "$(git -C /repo rev-parse HEAD)"
for D in "$@"; do
  N=$(basename "$D" .diff)
  git -C "$W" checkout -q -- .
  if ! git -C "$W" apply "$D" 2>/dev/null; then echo "$N DOES-NOT-APPLY (function rewritten by a later repair)" >> "$RES"; continue; fi
  T=$(cd "$W" && CARGO_NET_OFFLINE=true cargo test --offline --lib 2>&1 | grep -E "^test result|^error" | head -1)
  case "$T" in *"272 passed"*) ;; *) echo "$N TESTS: $T" >> "$RES"; continue;; esac
  BAD=""
  for i in 01 02 03 04 05 06 07 08 09 10 11 12 13 14 15 16 17 18 19 20; do
    OUT=$(VERIF_REPO="$W" /verif/check C$i 2>&1); rc=$?
    if [ $rc -ne 0 ]; then BAD="$BAD C$i:[$(echo "$OUT" | grep -A2 '^VIOLATION' | grep -v '^VIOLATION' | head -2 | tr '\n' ' ' | cut -c1-300)]"; fi
  done
  if [ -z "$BAD" ]; then echo "$N silent (20 checks)" >> "$RES"; else echo "$N ALARM $BAD" >> "$RES"; fi
done
git -C "$W" checkout -q -- .
