#!/usr/bin/env python3
"""Which repository functions did no check evaluate?  Reads evidence/*.json (functions_evaluated) and the srcfacts program."""
import json, glob, os, sys
sys.path.insert(0, os.path.join(os.path.dirname(__file__), '..', 'checker'))
import facts, prog
P = prog.Program.load(facts.src_facts()[0])
allf = {}
for f in P.all_fns:
    allf.setdefault(f.qname, f)
cov = {}
for e in sorted(glob.glob(os.path.join(os.path.dirname(__file__), '..', 'evidence', 'C*.json'))):
    d = json.load(open(e))
    for n in d['coverage'].get('functions_evaluated', {}).get('names', []):
        cov.setdefault(n, []).append(d['property_id'])
miss = sorted(set(allf) - set(cov))
print('repo functions: %d, evaluated by at least one check: %d, never evaluated: %d' % (len(allf), len(set(allf) & set(cov)), len(miss)))
by = {}
for m in miss:
    by.setdefault(allf[m].file, []).append(m)
for f, ms in sorted(by.items()):
    print('%s (%d)' % (f, len(ms)))
    print('   ' + ', '.join(ms))
