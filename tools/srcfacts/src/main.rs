// srcfacts: parse every source file of a crate reachable from src/lib.rs and dump a
// simplified JSON syntax tree (items, signatures, normalised expression trees).
// Pure syntax: nothing of the analysed crate is compiled or run.
use proc_macro2::TokenStream;
use quote::ToTokens;
use serde_json::{json, Map, Value};
use std::path::{Path, PathBuf};
use syn::parse::Parser;
use syn::punctuated::Punctuated;
use syn::spanned::Spanned;
use syn::*;

fn ts(t: &impl ToTokens) -> String {
  // compact token string
  let s = t.to_token_stream().to_string();
  let mut out = String::new();
  let cs: Vec<char> = s.chars().collect();
  for (i, c) in cs.iter().enumerate() {
    if *c == ' ' {
      let p = if i > 0 { cs[i - 1] } else { ' ' };
      let n = if i + 1 < cs.len() { cs[i + 1] } else { ' ' };
      let idc = |x: char| x.is_alphanumeric() || x == '_';
      if idc(p) && idc(n) {
        out.push(' ');
      }
      continue;
    }
    out.push(*c);
  }
  out
}

fn ln(s: proc_macro2::Span) -> usize {
  s.start().line
}

fn has_cfg_test(attrs: &[Attribute]) -> bool {
  attrs.iter().any(|a| a.path().is_ident("cfg") && ts(&a.meta).contains("test"))
}

fn attr_names(attrs: &[Attribute]) -> Vec<String> {
  attrs.iter().filter(|a| !a.path().is_ident("doc")).map(|a| ts(&a.meta)).collect()
}

fn vis(v: &Visibility) -> &'static str {
  match v {
    Visibility::Public(_) => "pub",
    Visibility::Restricted(_) => "restricted",
    Visibility::Inherited => "priv",
  }
}

fn path_v(p: &syn::Path) -> Value {
  let segs: Vec<Value> = p.segments.iter().map(|s| json!(s.ident.to_string())).collect();
  let mut generics: Vec<Value> = vec![];
  for s in p.segments.iter() {
    if let PathArguments::AngleBracketed(a) = &s.arguments {
      for g in a.args.iter() {
        generics.push(json!(ts(g)));
      }
    }
  }
  json!({"segs": segs, "generics": generics})
}

fn lit_v(l: &Lit, line: usize) -> Value {
  match l {
    Lit::Int(i) => json!({"k":"int","v":i.base10_digits(),"suf":i.suffix(),"ln":line}),
    Lit::Float(f) => json!({"k":"float","v":f.base10_digits(),"suf":f.suffix(),"ln":line}),
    Lit::Str(s) => json!({"k":"str","v":s.value(),"ln":line}),
    Lit::Bool(b) => json!({"k":"bool","v":b.value,"ln":line}),
    Lit::Char(c) => json!({"k":"char","v":c.value().to_string(),"ln":line}),
    Lit::Byte(b) => json!({"k":"int","v":b.value().to_string(),"suf":"u8","ln":line}),
    Lit::ByteStr(b) => json!({"k":"bytestr","v":b.value(),"ln":line}),
    other => json!({"k":"opaque","what":format!("lit {}", ts(other)),"ln":line}),
  }
}

fn pat_v(p: &Pat) -> Value {
  match p {
    Pat::Ident(i) => json!({"k":"pident","name":i.ident.to_string(),"mut":i.mutability.is_some(),"by_ref":i.by_ref.is_some(),
      "sub": i.subpat.as_ref().map(|(_, s)| pat_v(s))}),
    Pat::Wild(_) => json!({"k":"pwild"}),
    Pat::Lit(l) => json!({"k":"plit","e":expr_v(&Expr::Lit(ExprLit{attrs:vec![],lit:l.lit.clone()}))}),
    Pat::Tuple(t) => json!({"k":"ptuple","elems":t.elems.iter().map(pat_v).collect::<Vec<_>>()}),
    Pat::TupleStruct(t) => json!({"k":"pts","path":path_v(&t.path),"elems":t.elems.iter().map(pat_v).collect::<Vec<_>>()}),
    Pat::Path(p) => json!({"k":"ppath","path":path_v(&p.path)}),
    Pat::Or(o) => json!({"k":"por","cases":o.cases.iter().map(pat_v).collect::<Vec<_>>()}),
    Pat::Range(r) => json!({"k":"prange","lo":r.start.as_ref().map(|e| expr_v(e)),"hi":r.end.as_ref().map(|e| expr_v(e)),
      "incl": matches!(r.limits, RangeLimits::Closed(_))}),
    Pat::Reference(r) => json!({"k":"pref","p":pat_v(&r.pat)}),
    Pat::Type(t) => json!({"k":"ptype","p":pat_v(&t.pat),"ty":ts(&t.ty)}),
    Pat::Paren(p) => pat_v(&p.pat),
    Pat::Struct(s) => json!({"k":"pstruct","path":path_v(&s.path),
      "fields": s.fields.iter().map(|f| json!([ts(&f.member), pat_v(&f.pat)])).collect::<Vec<_>>(), "rest": s.rest.is_some()}),
    Pat::Slice(s) => json!({"k":"pslice","elems":s.elems.iter().map(pat_v).collect::<Vec<_>>()}),
    other => json!({"k":"popaque","what":ts(other)}),
  }
}

fn block_v(b: &Block) -> Value {
  let mut stmts: Vec<Value> = vec![];
  for s in b.stmts.iter() {
    match s {
      Stmt::Local(l) => {
        let (pat, ty) = match &l.pat {
          Pat::Type(t) => (pat_v(&t.pat), Some(ts(&t.ty))),
          p => (pat_v(p), None),
        };
        let (init, els) = match &l.init {
          Some(i) => (Some(expr_v(&i.expr)), i.diverge.as_ref().map(|(_, e)| expr_v(e))),
          None => (None, None),
        };
        stmts.push(json!({"k":"local","pat":pat,"ty":ty,"init":init,"else":els,"ln":ln(l.span())}));
      }
      Stmt::Expr(e, semi) => {
        stmts.push(json!({"k":"expr","e":expr_v(e),"semi":semi.is_some()}));
      }
      Stmt::Macro(m) => {
        stmts.push(json!({"k":"expr","e":macro_v(&m.mac),"semi":m.semi_token.is_some()}));
      }
      Stmt::Item(i) => {
        stmts.push(json!({"k":"item","item":item_v(i, Path::new(""), &mut vec![])}));
      }
    }
  }
  json!({"k":"block","stmts":stmts,"ln":ln(b.span())})
}

fn macro_v(m: &syn::Macro) -> Value {
  let name = m.path.segments.last().map(|s| s.ident.to_string()).unwrap_or_default();
  let line = ln(m.span());
  if name == "vec" {
    struct Rep(Expr, Expr);
    impl syn::parse::Parse for Rep {
      fn parse(input: syn::parse::ParseStream) -> Result<Self> {
        let a: Expr = input.parse()?;
        input.parse::<Token![;]>()?;
        let b: Expr = input.parse()?;
        Ok(Rep(a, b))
      }
    }
    if let Ok(Rep(a, b)) = syn::parse2::<Rep>(m.tokens.clone()) {
      return json!({"k":"repeat","e":expr_v(&a),"n":expr_v(&b),"ln":line});
    }
  }
  if name == "matches" {
    struct Mt(Expr, Pat, Option<Expr>);
    impl syn::parse::Parse for Mt {
      fn parse(input: syn::parse::ParseStream) -> Result<Self> {
        let a: Expr = input.parse()?;
        input.parse::<Token![,]>()?;
        let p: Pat = Pat::parse_multi_with_leading_vert(input)?;
        let g = if input.peek(Token![if]) { input.parse::<Token![if]>()?; Some(input.parse::<Expr>()?) } else { None };
        let _ = input.parse::<Option<Token![,]>>();
        Ok(Mt(a, p, g))
      }
    }
    if let Ok(Mt(a, p, g)) = syn::parse2::<Mt>(m.tokens.clone()) {
      return json!({"k":"matches","e":expr_v(&a),"pat":pat_v(&p),"guard":g.as_ref().map(|x| expr_v(x)),"ln":line});
    }
  }
  let parser = Punctuated::<Expr, Token![,]>::parse_terminated;
  match parser.parse2(m.tokens.clone()) {
    Ok(args) => json!({"k":"macro","name":name,"args":args.iter().map(expr_v).collect::<Vec<_>>(),"ln":line}),
    Err(_) => json!({"k":"macro","name":name,"args":Value::Null,"tokens":m.tokens.to_string(),"ln":line}),
  }
}

fn binop(op: &BinOp) -> &'static str {
  match op {
    BinOp::Add(_) => "+", BinOp::Sub(_) => "-", BinOp::Mul(_) => "*", BinOp::Div(_) => "/", BinOp::Rem(_) => "%",
    BinOp::And(_) => "&&", BinOp::Or(_) => "||", BinOp::BitXor(_) => "^", BinOp::BitAnd(_) => "&", BinOp::BitOr(_) => "|",
    BinOp::Shl(_) => "<<", BinOp::Shr(_) => ">>", BinOp::Eq(_) => "==", BinOp::Lt(_) => "<", BinOp::Le(_) => "<=",
    BinOp::Ne(_) => "!=", BinOp::Ge(_) => ">=", BinOp::Gt(_) => ">",
    BinOp::AddAssign(_) => "+=", BinOp::SubAssign(_) => "-=", BinOp::MulAssign(_) => "*=", BinOp::DivAssign(_) => "/=",
    BinOp::RemAssign(_) => "%=", BinOp::BitXorAssign(_) => "^=", BinOp::BitAndAssign(_) => "&=", BinOp::BitOrAssign(_) => "|=",
    BinOp::ShlAssign(_) => "<<=", BinOp::ShrAssign(_) => ">>=",
    _ => "?",
  }
}

fn opt_e(e: &Option<Box<Expr>>) -> Value {
  match e { Some(x) => expr_v(x), None => Value::Null }
}

fn expr_v(e: &Expr) -> Value {
  let line = ln(e.span());
  match e {
    Expr::Lit(l) => lit_v(&l.lit, line),
    Expr::Path(p) => { let mut v = path_v(&p.path); v["k"] = json!("path"); v["ln"] = json!(line); v }
    Expr::Binary(b) => json!({"k":"bin","op":binop(&b.op),"l":expr_v(&b.left),"r":expr_v(&b.right),"ln":line}),
    Expr::Unary(u) => {
      let op = match u.op { UnOp::Neg(_) => "-", UnOp::Not(_) => "!", UnOp::Deref(_) => "*", _ => "?" };
      json!({"k":"un","op":op,"e":expr_v(&u.expr),"ln":line})
    }
    Expr::Assign(a) => json!({"k":"assign","l":expr_v(&a.left),"r":expr_v(&a.right),"ln":line}),
    Expr::Call(c) => json!({"k":"call","f":expr_v(&c.func),"args":c.args.iter().map(expr_v).collect::<Vec<_>>(),"ln":line}),
    Expr::MethodCall(m) => json!({"k":"mcall","recv":expr_v(&m.receiver),"m":m.method.to_string(),
      "args":m.args.iter().map(expr_v).collect::<Vec<_>>(),
      "turbofish": m.turbofish.as_ref().map(|t| t.args.iter().map(|a| ts(a)).collect::<Vec<_>>()),"ln":ln(m.method.span())}),
    Expr::Field(f) => json!({"k":"field","e":expr_v(&f.base),"name":ts(&f.member),"ln":line}),
    Expr::Index(i) => json!({"k":"index","e":expr_v(&i.expr),"i":expr_v(&i.index),"ln":line}),
    Expr::Range(r) => json!({"k":"range","lo":opt_e(&r.start),"hi":opt_e(&r.end),"incl":matches!(r.limits, RangeLimits::Closed(_)),"ln":line}),
    Expr::If(i) => json!({"k":"if","c":expr_v(&i.cond),"t":block_v(&i.then_branch),
      "e": i.else_branch.as_ref().map(|(_, e)| expr_v(e)),"ln":line}),
    Expr::Let(l) => json!({"k":"let","pat":pat_v(&l.pat),"e":expr_v(&l.expr),"ln":line}),
    Expr::Match(m) => json!({"k":"match","e":expr_v(&m.expr),"arms":m.arms.iter().map(|a| json!({
      "pat":pat_v(&a.pat),"guard":a.guard.as_ref().map(|(_, g)| expr_v(g)),"body":expr_v(&a.body)})).collect::<Vec<_>>(),"ln":line}),
    Expr::Block(b) => block_v(&b.block),
    Expr::Unsafe(b) => { let mut v = block_v(&b.block); v["unsafe"] = json!(true); v }
    Expr::ForLoop(f) => json!({"k":"for","pat":pat_v(&f.pat),"iter":expr_v(&f.expr),"body":block_v(&f.body),"ln":line}),
    Expr::While(w) => json!({"k":"while","c":expr_v(&w.cond),"body":block_v(&w.body),"ln":line}),
    Expr::Loop(l) => json!({"k":"loop","body":block_v(&l.body),"ln":line}),
    Expr::Break(b) => json!({"k":"break","e":opt_e(&b.expr),"ln":line}),
    Expr::Continue(_) => json!({"k":"continue","ln":line}),
    Expr::Return(r) => json!({"k":"return","e":opt_e(&r.expr),"ln":line}),
    Expr::Closure(c) => json!({"k":"closure","params":c.inputs.iter().map(pat_v).collect::<Vec<_>>(),"body":expr_v(&c.body),"move":c.capture.is_some(),"ln":line}),
    Expr::Struct(s) => json!({"k":"struct","path":path_v(&s.path),
      "fields":s.fields.iter().map(|f| json!([ts(&f.member), expr_v(&f.expr)])).collect::<Vec<_>>(),
      "rest": s.rest.as_ref().map(|r| expr_v(r)),"ln":line}),
    Expr::Tuple(t) => json!({"k":"tuple","elems":t.elems.iter().map(expr_v).collect::<Vec<_>>(),"ln":line}),
    Expr::Array(a) => json!({"k":"array","elems":a.elems.iter().map(expr_v).collect::<Vec<_>>(),"ln":line}),
    Expr::Repeat(r) => json!({"k":"repeat","e":expr_v(&r.expr),"n":expr_v(&r.len),"ln":line}),
    Expr::Cast(c) => json!({"k":"cast","e":expr_v(&c.expr),"ty":ts(&c.ty),"ln":line}),
    Expr::Reference(r) => json!({"k":"ref","mut":r.mutability.is_some(),"e":expr_v(&r.expr),"ln":line}),
    Expr::Paren(p) => expr_v(&p.expr),
    Expr::Group(g) => expr_v(&g.expr),
    Expr::Try(t) => json!({"k":"try","e":expr_v(&t.expr),"ln":line}),
    Expr::Macro(m) => macro_v(&m.mac),
    other => json!({"k":"opaque","what":ts(other),"ln":line}),
  }
}

fn sig_v(sig: &Signature) -> Value {
  let mut params: Vec<Value> = vec![];
  let mut self_kind = Value::Null;
  for a in sig.inputs.iter() {
    match a {
      FnArg::Receiver(r) => {
        self_kind = json!(if r.reference.is_some() { if r.mutability.is_some() { "refmut" } else { "ref" } } else { "value" });
      }
      FnArg::Typed(t) => params.push(json!({"pat":pat_v(&t.pat),"ty":ts(&t.ty)})),
    }
  }
  let ret = match &sig.output { ReturnType::Default => Value::Null, ReturnType::Type(_, t) => json!(ts(t)) };
  json!({"name":sig.ident.to_string(),"params":params,"self":self_kind,"ret":ret,
    "generics":ts(&sig.generics),"unsafe":sig.unsafety.is_some()})
}

fn fn_v(sig: &Signature, body: Option<&Block>, v: &str, attrs: &[Attribute], span: proc_macro2::Span) -> Value {
  let mut o = sig_v(sig);
  o["k"] = json!("fn");
  o["vis"] = json!(v);
  o["attrs"] = json!(attr_names(attrs));
  o["ln"] = json!(ln(span));
  o["end_ln"] = json!(span.end().line);
  o["body"] = match body { Some(b) => block_v(b), None => Value::Null };
  o
}

fn lazy_static_items(tokens: TokenStream, out: &mut Vec<Value>, line: usize) {
  // `[pub] static ref NAME: TY = EXPR;` repeated
  struct LS(Vec<(String, String, Expr, bool, usize)>);
  impl syn::parse::Parse for LS {
    fn parse(input: syn::parse::ParseStream) -> Result<Self> {
      let mut v = vec![];
      while !input.is_empty() {
        let _attrs = input.call(Attribute::parse_outer)?;
        let vis: Visibility = input.parse()?;
        input.parse::<Token![static]>()?;
        input.parse::<Token![ref]>()?;
        let name: Ident = input.parse()?;
        input.parse::<Token![:]>()?;
        let ty: Type = input.parse()?;
        input.parse::<Token![=]>()?;
        let e: Expr = input.parse()?;
        input.parse::<Token![;]>()?;
        let l = name.span().start().line;
        v.push((name.to_string(), ts(&ty), e, matches!(vis, Visibility::Public(_)), l));
      }
      Ok(LS(v))
    }
  }
  match syn::parse2::<LS>(tokens.clone()) {
    Ok(LS(v)) => {
      for (name, ty, e, p, l) in v {
        out.push(json!({"k":"static","name":name,"ty":ty,"expr":expr_v(&e),"vis":if p {"pub"} else {"priv"},"lazy":true,"mut":false,"ln":l}));
      }
    }
    Err(err) => out.push(json!({"k":"opaque_item","what":format!("lazy_static parse error: {}", err),"ln":line})),
  }
}

fn item_v(it: &Item, dir: &Path, files: &mut Vec<(PathBuf, Vec<String>)>) -> Value {
  match it {
    Item::Fn(f) => fn_v(&f.sig, Some(&f.block), vis(&f.vis), &f.attrs, f.span()),
    Item::Struct(s) => {
      let fields: Vec<Value> = match &s.fields {
        Fields::Named(n) => n.named.iter().map(|f| json!({"name":f.ident.as_ref().unwrap().to_string(),"ty":ts(&f.ty),"vis":vis(&f.vis)})).collect(),
        Fields::Unnamed(u) => u.unnamed.iter().enumerate().map(|(i, f)| json!({"name":i.to_string(),"ty":ts(&f.ty),"vis":vis(&f.vis)})).collect(),
        Fields::Unit => vec![],
      };
      json!({"k":"struct_def","name":s.ident.to_string(),"fields":fields,"vis":vis(&s.vis),"attrs":attr_names(&s.attrs),"ln":ln(s.span())})
    }
    Item::Enum(e) => {
      let vars: Vec<Value> = e.variants.iter().map(|v| json!({"name":v.ident.to_string(),
        "disc": v.discriminant.as_ref().map(|(_, d)| expr_v(d)), "nfields": v.fields.len()})).collect();
      json!({"k":"enum_def","name":e.ident.to_string(),"variants":vars,"vis":vis(&e.vis),"attrs":attr_names(&e.attrs),"ln":ln(e.span())})
    }
    Item::Static(s) => json!({"k":"static","name":s.ident.to_string(),"ty":ts(&s.ty),"expr":expr_v(&s.expr),"vis":vis(&s.vis),
      "lazy":false,"mut":matches!(s.mutability, StaticMutability::Mut(_)),"ln":ln(s.span())}),
    Item::Const(c) => json!({"k":"static","name":c.ident.to_string(),"ty":ts(&c.ty),"expr":expr_v(&c.expr),"vis":vis(&c.vis),
      "lazy":false,"mut":false,"const":true,"ln":ln(c.span())}),
    Item::Impl(i) => {
      let mut items: Vec<Value> = vec![];
      for ii in i.items.iter() {
        match ii {
          ImplItem::Fn(f) => items.push(fn_v(&f.sig, Some(&f.block), vis(&f.vis), &f.attrs, f.span())),
          ImplItem::Const(c) => items.push(json!({"k":"static","name":c.ident.to_string(),"ty":ts(&c.ty),"expr":expr_v(&c.expr),"const":true,"ln":ln(c.span())})),
          ImplItem::Type(t) => items.push(json!({"k":"assoc_type","name":t.ident.to_string(),"ty":ts(&t.ty)})),
          other => items.push(json!({"k":"opaque_item","what":ts(other)})),
        }
      }
      json!({"k":"impl","self_ty":ts(&i.self_ty),"trait":i.trait_.as_ref().map(|(_, p, _)| ts(p)),
        "unsafe":i.unsafety.is_some(),"generics":ts(&i.generics),"items":items,"ln":ln(i.span())})
    }
    Item::Trait(t) => {
      let mut items: Vec<Value> = vec![];
      for ti in t.items.iter() {
        if let TraitItem::Fn(f) = ti {
          items.push(fn_v(&f.sig, f.default.as_ref(), "pub", &f.attrs, f.span()));
        }
      }
      json!({"k":"trait","name":t.ident.to_string(),"supers":t.supertraits.iter().map(|s| ts(s)).collect::<Vec<_>>(),
        "items":items,"unsafe":t.unsafety.is_some(),"ln":ln(t.span())})
    }
    Item::Mod(m) => {
      if has_cfg_test(&m.attrs) {
        return json!({"k":"mod","name":m.ident.to_string(),"cfg_test":true,"ln":ln(m.span())});
      }
      match &m.content {
        Some((_, its)) => {
          let sub = dir.join(m.ident.to_string());
          let items: Vec<Value> = its.iter().map(|i| item_v(i, &sub, files)).collect();
          json!({"k":"mod","name":m.ident.to_string(),"inline":true,"items":items,"ln":ln(m.span())})
        }
        None => {
          let name = m.ident.to_string();
          let a = dir.join(format!("{}.rs", name));
          let b = dir.join(&name).join("mod.rs");
          if a.exists() { files.push((a, vec![name.clone()])); } else { files.push((b, vec![name.clone()])); }
          json!({"k":"mod","name":name,"inline":false,"ln":ln(m.span())})
        }
      }
    }
    Item::Use(u) => {
      let mut paths: Vec<Value> = vec![];
      fn flat(t: &UseTree, prefix: &mut Vec<String>, out: &mut Vec<Value>) {
        match t {
          UseTree::Path(p) => { prefix.push(p.ident.to_string()); flat(&p.tree, prefix, out); prefix.pop(); }
          UseTree::Name(n) => { let mut v = prefix.clone(); v.push(n.ident.to_string()); out.push(json!({"path":v,"as":n.ident.to_string()})); }
          UseTree::Rename(r) => { let mut v = prefix.clone(); v.push(r.ident.to_string()); out.push(json!({"path":v,"as":r.rename.to_string()})); }
          UseTree::Glob(_) => { let mut v = prefix.clone(); v.push("*".to_string()); out.push(json!({"path":v,"as":"*"})); }
          UseTree::Group(g) => { for i in g.items.iter() { flat(i, prefix, out); } }
        }
      }
      flat(&u.tree, &mut vec![], &mut paths);
      json!({"k":"use","what":ts(&u.tree),"vis":vis(&u.vis),"paths":paths})
    }
    Item::Macro(m) => {
      let name = m.mac.path.segments.last().map(|s| s.ident.to_string()).unwrap_or_default();
      if name == "lazy_static" {
        let mut v = vec![];
        lazy_static_items(m.mac.tokens.clone(), &mut v, ln(m.span()));
        json!({"k":"multi","items":v})
      } else {
        json!({"k":"item_macro","name":name,"tokens":m.mac.tokens.to_string(),"ln":ln(m.span())})
      }
    }
    Item::Type(t) => json!({"k":"type_alias","name":t.ident.to_string(),"ty":ts(&t.ty)}),
    other => json!({"k":"opaque_item","what":ts(other).chars().take(200).collect::<String>()}),
  }
}

fn main() {
  let args: Vec<String> = std::env::args().collect();
  if args.len() < 3 {
    eprintln!("usage: srcfacts <crate-root> <out.json>");
    std::process::exit(2);
  }
  let root = PathBuf::from(&args[1]);
  let mut queue: Vec<(PathBuf, Vec<String>)> = vec![(root.join("src/lib.rs"), vec![])];
  let mut files_out: Vec<Value> = vec![];
  let mut seen = std::collections::HashSet::new();
  // module path tracking: each queued file carries its own module name; parents are derived from directory
  while let Some((path, _m)) = queue.pop() {
    if !seen.insert(path.clone()) { continue; }
    let src = match std::fs::read_to_string(&path) {
      Ok(s) => s,
      Err(e) => { eprintln!("cannot read {}: {}", path.display(), e); std::process::exit(3); }
    };
    let file = match syn::parse_file(&src) {
      Ok(f) => f,
      Err(e) => { eprintln!("parse error {}: {}", path.display(), e); std::process::exit(4); }
    };
    let fname = path.file_name().unwrap().to_str().unwrap().to_string();
    let dir = if fname == "lib.rs" || fname == "mod.rs" || fname == "main.rs" {
      path.parent().unwrap().to_path_buf()
    } else {
      path.parent().unwrap().join(path.file_stem().unwrap())
    };
    let mut newfiles = vec![];
    let items: Vec<Value> = file.items.iter().map(|i| item_v(i, &dir, &mut newfiles)).collect();
    queue.extend(newfiles);
    let rel = path.strip_prefix(&root).unwrap_or(&path).to_string_lossy().to_string();
    let mut o = Map::new();
    o.insert("file".into(), json!(rel));
    o.insert("items".into(), json!(items));
    o.insert("nlines".into(), json!(src.lines().count()));
    files_out.push(Value::Object(o));
  }
  files_out.sort_by(|a, b| a["file"].as_str().cmp(&b["file"].as_str()));
  let out = json!({"crate_root": root.to_string_lossy(), "files": files_out});
  std::fs::write(&args[2], serde_json::to_vec(&out).unwrap()).unwrap();
  eprintln!("srcfacts: {} files", out["files"].as_array().unwrap().len());
}
