#!/usr/bin/env python3
"""run the property's own check (and optionally others) against every seeded change; writes seeded/MATRIX.json.
/repo is modified only between `git apply` and `git checkout -- .`"""
import json, os, re, subprocess, sys
V = '/verif'
only = sys.argv[1:]
out = {}
mp = os.path.join(V, 'seeded', 'MATRIX.json')
if os.path.exists(mp):
    out = json.load(open(mp))
assert subprocess.run(['git', '-C', '/repo', 'status', '--porcelain', '--untracked-files=no'], stdout=subprocess.PIPE).stdout.strip() == b'', '/repo not clean'
for d in sorted(os.listdir(os.path.join(V, 'seeded'))):
    p = os.path.join(V, 'seeded', d)
    if not os.path.isdir(p) or (only and d not in only) or not os.path.exists(os.path.join(p, 'meta.json')):
        continue
    meta = json.load(open(os.path.join(p, 'meta.json')))
    pid = meta['breaks_property']
    r = subprocess.run(['git', '-C', '/repo', 'apply', os.path.join(p, 'patch.diff')])
    if r.returncode != 0:
        out[d] = {'error': 'patch does not apply'}
        continue
    try:
        c = subprocess.run([os.path.join(V, 'check'), pid], stdout=subprocess.PIPE, stderr=subprocess.STDOUT, universal_newlines=True, cwd=V)
        keys = re.findall(r'rule=(\S+) key=(\S+)', c.stdout)
        unan = 'UNANALYSABLE' in c.stdout
        out[d] = {'property': pid, 'rc': c.returncode, 'violations': ['%s %s' % k for k in keys], 'unanalysable_only': unan and all('UNANALYSABLE' in l for l in re.findall(r'^  (?!rule=)(.*)$', c.stdout, re.M)[:len(keys)])}
    finally:
        subprocess.run(['git', '-C', '/repo', 'checkout', '--', '.'])
    print(d, out[d]['rc'], out[d]['violations'][:2], flush=True)
    json.dump(out, open(mp, 'w'), indent=1, sort_keys=True)
json.dump(out, open(mp, 'w'), indent=1, sort_keys=True)
miss = [k for k, v in out.items() if v.get('rc') != 1]
print('detected %d / %d ; missed: %s' % (len(out) - len(miss), len(out), miss))
