#!/usr/bin/env python3
"""run the property's own check (and optionally others) against every seeded change; writes seeded/MATRIX.json.
The patches are applied in a scratch worktree of /repo HEAD (MATRIX_WT, default /tmp/mxwt) that the checks read through VERIF_REPO;
/repo itself is never modified."""
import json, os, re, subprocess, sys
V = '/verif'
only = sys.argv[1:]
out = {}
mp = os.environ.get('MATRIX_OUT') or os.path.join(V, 'seeded', 'MATRIX.json')
if os.path.exists(mp):
    out = json.load(open(mp))
WT = os.environ.get('MATRIX_WT', '/tmp/mxwt')
if not os.path.isdir(WT):
    subprocess.run(['git', '-C', '/repo', 'worktree', 'add', '-q', '--detach', WT, 'HEAD'], check=True)
subprocess.run(['git', '-C', WT, 'checkout', '-q', '--detach', subprocess.run(['git', '-C', '/repo', 'rev-parse', 'HEAD'], stdout=subprocess.PIPE, universal_newlines=True).stdout.strip()], check=True)
subprocess.run(['git', '-C', WT, 'checkout', '-q', '--', '.'], check=True)
ENV = dict(os.environ, VERIF_REPO=WT)
for d in sorted(os.listdir(os.path.join(V, 'seeded'))):
    p = os.path.join(V, 'seeded', d)
    if not os.path.isdir(p) or (only and d not in only) or not os.path.exists(os.path.join(p, 'meta.json')):
        continue
    meta = json.load(open(os.path.join(p, 'meta.json')))
    pid = meta['breaks_property']
    r = subprocess.run(['git', '-C', WT, 'apply', os.path.join(p, 'patch.diff')])
    if r.returncode != 0:
        out[d] = {'error': 'patch does not apply'}
        continue
    try:
        c = subprocess.run([os.path.join(V, 'check'), pid], stdout=subprocess.PIPE, stderr=subprocess.STDOUT, universal_newlines=True, cwd=V, env=ENV)
        keys = re.findall(r'rule=(\S+) key=(\S+)', c.stdout)
        unan = 'UNANALYSABLE' in c.stdout
        out[d] = {'property': pid, 'rc': c.returncode, 'violations': ['%s %s' % k for k in keys], 'unanalysable_only': unan and all('UNANALYSABLE' in l for l in re.findall(r'^  (?!rule=)(.*)$', c.stdout, re.M)[:len(keys)])}
    finally:
        subprocess.run(['git', '-C', WT, 'checkout', '--', '.'])
    print(d, out[d]['rc'], out[d]['violations'][:2], flush=True)
    json.dump(out, open(mp, 'w'), indent=1, sort_keys=True)
json.dump(out, open(mp, 'w'), indent=1, sort_keys=True)
miss = [k for k, v in out.items() if v.get('rc') != 1]
print('detected %d / %d ; missed: %s' % (len(out) - len(miss), len(out), miss))
