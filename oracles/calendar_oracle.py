"""Proleptic Julian/Gregorian civil calendar facts (independent of the repository).

Julian calendar before 1582-10-05, Gregorian from 1582-10-15; 1582-10-05..14 do not exist.
"""
GREG_FIRST = (1582, 10, 15)
GAP = range(5, 15)


def is_leap(y):
    if y < 1582 or y == 1582:
        return y % 4 == 0
    return y % 4 == 0 and (y % 100 != 0 or y % 400 == 0)


def month_days(y, m):
    if y == 1582 and m == 10:
        return 21
    if m == 2:
        return 29 if is_leap(y) else 28
    return [31, 28, 31, 30, 31, 30, 31, 31, 30, 31, 30, 31][m - 1]


def month_last_dom(y, m):
    """last day-of-month label"""
    if y == 1582 and m == 10:
        return 31
    return month_days(y, m)


def exists(y, m, d):
    if not (1 <= y <= 9999 and 1 <= m <= 12 and d >= 1):
        return False
    if y == 1582 and m == 10:
        return d <= 31 and d not in GAP
    return d <= month_days(y, m)


def year_days(y):
    if y == 1582:
        return 355
    return 366 if is_leap(y) else 365


def jdn(y, m, d):
    """Julian Day Number (integer, noon) by pure integer arithmetic (Fliegel-Van Flandern style)"""
    a = (14 - m) // 12
    yy = y + 4800 - a
    mm = m + 12 * a - 3
    if (y, m, d) >= GREG_FIRST:
        return d + (153 * mm + 2) // 5 + 365 * yy + yy // 4 - yy // 100 + yy // 400 - 32045
    return d + (153 * mm + 2) // 5 + 365 * yy + yy // 4 - 32083


def from_jdn(j):
    if j >= 2299161:
        a = j + 32044
        b = (4 * a + 3) // 146097
        c = a - 146097 * b // 4
    else:
        b = 0
        c = j + 32082
    d = (4 * c + 3) // 1461
    e = c - 1461 * d // 4
    m = (5 * e + 2) // 153
    day = e - (153 * m + 2) // 5 + 1
    month = m + 3 - 12 * (m // 10)
    year = 100 * b + d - 4800 + m // 10
    return year, month, day


assert jdn(1582, 10, 15) == 2299161 and jdn(1582, 10, 4) == 2299160 and jdn(2000, 1, 1) == 2451545
assert from_jdn(2299161) == (1582, 10, 15) and from_jdn(2299160) == (1582, 10, 4)
