# -*- coding: utf-8 -*-
"""Almanac oracles: auspicious / ominous classification of well-known day spirits (协纪辨方书 吉神宜趋 / 凶神宜忌).
Partial on purpose: only names whose class is beyond doubt are listed; names not listed are not judged."""
AUSPICIOUS = set(u'天恩 母仓 月德 月德合 天德 天德合 天赦 天愿 月恩 四相 时德 三合 六合 五合 天喜 天医 天马 驿马 生气 益后 续世 福德 福生 圣心 普护 要安 敬安 '
                 u'玉宇 金堂 青龙 明堂 金匮 宝光 玉堂 司命 解神 除神 鸣吠 鸣吠对 不将 阳德 阴德 王日 官日 守日 相日 民日 吉期 天仓 天巫 天后 五富 时阳 时阴 六仪 月空 临日'.split())
OMINOUS = set(u'月破 大耗 小耗 月煞 月刑 月害 月厌 劫煞 灾煞 天刑 朱雀 白虎 天牢 元武 勾陈 五虚 五离 重日 复日 血支 血忌 天贼 土符 土府 游祸 致死 河魁 天罡 '
              u'死神 死气 往亡 大时 大败 咸池 九坎 九焦 九空 归忌 天吏 地火 天火 四击 大煞 八专 触水龙 地囊 四废 四忌 四穷 五墓 阴错 阳错 四耗 孤辰 天狗 月建 月虚 '
              u'小时 厌对 招摇 四离 八风 三丧 鬼哭'.split())
assert not (AUSPICIOUS & OMINOUS)
