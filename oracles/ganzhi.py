# -*- coding: utf-8 -*-
"""First-principles encodings of the stem/branch correspondence rules (independent of the repository).

Everything is written in terms of NAMES (characters), never repository indices, so that an index
re-arrangement in the repository cannot make oracle and code agree by accident.
Each block quotes the classical rule it encodes.
"""

STEMS = u'甲乙丙丁戊己庚辛壬癸'
BRANCHES = u'子丑寅卯辰巳午未申酉戌亥'
ELEMENTS = u'木火土金水'           # generating cycle order: 木生火 火生土 土生金 金生水 水生木
ZODIAC = u'鼠牛虎兔龙蛇马羊猴鸡狗猪'

# 甲乙木 丙丁火 戊己土 庚辛金 壬癸水；奇数位为阳
STEM_ELEMENT = dict(zip(STEMS, u'木木火火土土金金水水'))
STEM_YANG = dict((s, i % 2 == 0) for i, s in enumerate(STEMS))
# 子亥水 寅卯木 巳午火 申酉金 辰戌丑未土；子寅辰午申戌为阳
BRANCH_ELEMENT = dict(zip(BRANCHES, u'水土木木土火火土金金土水'))
BRANCH_YANG = dict((b, i % 2 == 0) for i, b in enumerate(BRANCHES))

# 五行方位：木东 火南 土中 金西 水北
ELEMENT_DIRECTION = {u'木': u'东', u'火': u'南', u'土': u'中', u'金': u'西', u'水': u'北'}
# 后天八卦 + 洛书数：坎一北 坤二西南 震三东 巽四东南 中五 乾六西北 兑七西 艮八东北 离九南
TRIGRAM_DIRECTION = {u'坎': u'北', u'坤': u'西南', u'震': u'东', u'巽': u'东南', u'乾': u'西北', u'兑': u'西', u'艮': u'东北', u'离': u'南'}
LUOSHU = [u'北', u'西南', u'东', u'东南', u'中', u'西北', u'西', u'东北', u'南']   # Luoshu number n -> LUOSHU[n-1]
DIRECTION_ELEMENT = {u'北': u'水', u'西南': u'土', u'东': u'木', u'东南': u'木', u'中': u'土', u'西北': u'金', u'西': u'金', u'东北': u'土', u'南': u'火'}
# 二十四山：地支所在宫
BRANCH_TRIGRAM = {u'子': u'坎', u'丑': u'艮', u'寅': u'艮', u'卯': u'震', u'辰': u'巽', u'巳': u'巽', u'午': u'离', u'未': u'坤', u'申': u'坤', u'酉': u'兑', u'戌': u'乾', u'亥': u'乾'}
ANIMAL_BRANCH = dict(zip(ZODIAC, BRANCHES))

# 《喜神方位歌》甲己在艮乙庚乾，丙辛坤位喜神安。丁壬只在离宫坐，戊癸原在在巽间。
JOY = {}
for pair, tri in ((u'甲己', u'艮'), (u'乙庚', u'乾'), (u'丙辛', u'坤'), (u'丁壬', u'离'), (u'戊癸', u'巽')):
    for s in pair:
        JOY[s] = TRIGRAM_DIRECTION[tri]
# 《阳贵神歌》甲戊坤艮位，乙己是坤坎，庚辛居离艮，丙丁兑与乾，震巽属何日，壬癸贵神安。
YANG_NOBLE = {}
for pair, tris in ((u'甲戊', u'坤艮'), (u'乙己', u'坤坎'), (u'庚辛', u'离艮'), (u'丙丁', u'兑乾'), (u'壬癸', u'震巽')):
    for s, t in zip(pair, tris):
        YANG_NOBLE[s] = TRIGRAM_DIRECTION[t]
# 《阴贵神歌》甲戊见牛羊，乙己鼠猴乡，丙丁猪鸡位，壬癸蛇兔藏，庚辛逢虎马，此是贵神方。
YIN_NOBLE = {}
for pair, animals in ((u'甲戊', u'牛羊'), (u'乙己', u'鼠猴'), (u'丙丁', u'猪鸡'), (u'壬癸', u'蛇兔'), (u'庚辛', u'虎马')):
    for s, a in zip(pair, animals):
        YIN_NOBLE[s] = TRIGRAM_DIRECTION[BRANCH_TRIGRAM[ANIMAL_BRANCH[a]]]
# 《财神方位歌》甲乙东北是财神，丙丁向在西南寻，戊己正北坐方位，庚辛正东去安身，壬癸原来正南坐
WEALTH = {}
for pair, d in ((u'甲乙', u'东北'), (u'丙丁', u'西南'), (u'戊己', u'北'), (u'庚辛', u'东'), (u'壬癸', u'南')):
    for s in pair:
        WEALTH[s] = d
# 《福神方位歌》甲乙东南是福神，丙丁正东是堪宜，戊北己南庚辛坤，壬在乾方癸在西。
MASCOT = {u'甲': u'东南', u'乙': u'东南', u'丙': u'东', u'丁': u'东', u'戊': u'北', u'己': u'南',
          u'庚': TRIGRAM_DIRECTION[u'坤'], u'辛': TRIGRAM_DIRECTION[u'坤'], u'壬': TRIGRAM_DIRECTION[u'乾'], u'癸': u'西'}

# 地支藏干（本气、中气、余气）：子癸 丑己癸辛 寅甲丙戊 卯乙 辰戊乙癸 巳丙庚戊 午丁己 未己丁乙 申庚壬戊 酉辛 戌戊辛丁 亥壬甲
HIDDEN = dict(zip(BRANCHES, [u'癸', u'己癸辛', u'甲丙戊', u'乙', u'戊乙癸', u'丙庚戊', u'丁己', u'己丁乙', u'庚壬戊', u'辛', u'戊辛丁', u'壬甲']))

# 十神：同我者比肩劫财，我生者食神伤官，我克者偏财正财，克我者七杀正官，生我者偏印正印；阴阳同为偏(比肩/食神/偏财/七杀/偏印)
def generates(a, b):
    return ELEMENTS[(ELEMENTS.index(a) + 1) % 5] == b


def overcomes(a, b):
    return ELEMENTS[(ELEMENTS.index(a) + 2) % 5] == b


def ten_star(me, other):
    em, eo = STEM_ELEMENT[me], STEM_ELEMENT[other]
    same = STEM_YANG[me] == STEM_YANG[other]
    if em == eo:
        return u'比肩' if same else u'劫财'
    if generates(em, eo):
        return u'食神' if same else u'伤官'
    if overcomes(em, eo):
        return u'偏财' if same else u'正财'
    if overcomes(eo, em):
        return u'七杀' if same else u'正官'
    if generates(eo, em):
        return u'偏印' if same else u'正印'
    raise AssertionError


# 长生十二神：甲长生在亥 乙午 丙寅 丁酉 戊寅 己酉 庚巳 辛子 壬申 癸卯；阳干顺行，阴干逆行
TERRAIN_ORDER = [u'长生', u'沐浴', u'冠带', u'临官', u'帝旺', u'衰', u'病', u'死', u'墓', u'绝', u'胎', u'养']
BIRTH_BRANCH = dict(zip(STEMS, u'亥午寅酉寅酉巳子申卯'))


def terrain(stem, branch):
    b0 = BRANCHES.index(BIRTH_BRANCH[stem])
    b = BRANCHES.index(branch)
    steps = (b - b0) % 12 if STEM_YANG[stem] else (b0 - b) % 12
    return TERRAIN_ORDER[steps]


# 五合：甲己合化土 乙庚合化金 丙辛合化水 丁壬合化木 戊癸合化火
FIVE_COMBINE = {}
for pair, el in ((u'甲己', u'土'), (u'乙庚', u'金'), (u'丙辛', u'水'), (u'丁壬', u'木'), (u'戊癸', u'火')):
    FIVE_COMBINE[pair[0]] = (pair[1], el)
    FIVE_COMBINE[pair[1]] = (pair[0], el)
# 六合：子丑合化土 寅亥合化木 卯戌合化火 辰酉合化金 巳申合化水 午未合化土
SIX_COMBINE = {}
for pair, el in ((u'子丑', u'土'), (u'寅亥', u'木'), (u'卯戌', u'火'), (u'辰酉', u'金'), (u'巳申', u'水'), (u'午未', u'土')):
    SIX_COMBINE[pair[0]] = (pair[1], el)
    SIX_COMBINE[pair[1]] = (pair[0], el)
# 六冲：子午 丑未 寅申 卯酉 辰戌 巳亥
CLASH = {}
for pair in (u'子午', u'丑未', u'寅申', u'卯酉', u'辰戌', u'巳亥'):
    CLASH[pair[0]] = pair[1]
    CLASH[pair[1]] = pair[0]
# 六害：子未 丑午 寅巳 卯辰 申亥 酉戌
HARM = {}
for pair in (u'子未', u'丑午', u'寅巳', u'卯辰', u'申亥', u'酉戌'):
    HARM[pair[0]] = pair[1]
    HARM[pair[1]] = pair[0]
# 煞：逢巳日、酉日、丑日必煞东；亥日、卯日、未日必煞西；申日、子日、辰日必煞南；寅日、午日、戌日必煞北
OMINOUS = {}
for trio, d in ((u'巳酉丑', u'东'), (u'亥卯未', u'西'), (u'申子辰', u'南'), (u'寅午戌', u'北')):
    for b in trio:
        OMINOUS[b] = d

# 六十甲子纳音（每两柱一音）
NAYIN = [u'海中金', u'炉中火', u'大林木', u'路旁土', u'剑锋金', u'山头火', u'涧下水', u'城头土', u'白蜡金', u'杨柳木',
         u'泉中水', u'屋上土', u'霹雳火', u'松柏木', u'长流水', u'沙中金', u'山下火', u'平地木', u'壁上土', u'金箔金',
         u'覆灯火', u'天河水', u'大驿土', u'钗钏金', u'桑柘木', u'大溪水', u'沙中土', u'天上火', u'石榴木', u'大海水']
# accepted orthographic variants of the same nayin
NAYIN_VARIANTS = {u'路旁土': [u'路傍土'], u'剑锋金': [u'剑峰金'], u'泉中水': [u'井泉水'], u'覆灯火': [u'佛灯火'],
                  u'钗钏金': [u'钗环金'], u'大驿土': [u'大驿土'], u'金箔金': [u'金泊金']}


def sixty(i):
    return STEMS[i % 10] + BRANCHES[i % 12]


# 旬与旬空：甲子旬戌亥空 甲戌旬申酉空 甲申旬午未空 甲午旬辰巳空 甲辰旬寅卯空 甲寅旬子丑空
XUN = [(u'甲子', u'戌亥'), (u'甲戌', u'申酉'), (u'甲申', u'午未'), (u'甲午', u'辰巳'), (u'甲辰', u'寅卯'), (u'甲寅', u'子丑')]


def xun_of(i):
    """decade head and void branches of pillar index i: the head is the 甲 pillar at or before it"""
    head = i - (i % 10)
    name = sixty(head)
    for h, void in XUN:
        if h == name:
            return h, void
    raise AssertionError


# 西方星座（月, 日）起始；通行界：白羊3/21 金牛4/20 双子5/21 巨蟹6/22 狮子7/23 处女8/23 天秤9/23 天蝎10/24 射手11/23 摩羯12/22 水瓶1/20 双鱼2/19
CONSTELLATION_START = [(u'白羊', 3, 21), (u'金牛', 4, 20), (u'双子', 5, 21), (u'巨蟹', 6, 22), (u'狮子', 7, 23), (u'处女', 8, 23),
                       (u'天秤', 9, 23), (u'天蝎', 10, 24), (u'射手', 11, 23), (u'摩羯', 12, 22), (u'水瓶', 1, 20), (u'双鱼', 2, 19)]


def constellation(month, day):
    md = month * 100 + day
    best = None
    for name, m, d in CONSTELLATION_START:
        s = m * 100 + d
        if s <= md and (best is None or s > best[0]):
            best = (s, name)
    if best is None:
        return u'摩羯'   # before 1/20 belongs to the sign that started on 12/22
    return best[1]


# 胎神：《胎神歌》甲己之日占在门，乙庚碓磨休移动，丙辛厨灶莫相干，丁壬仓库忌修弄，戊癸房床若移整
FETUS_STEM = {}
for pair, w in ((u'甲己', u'门'), (u'乙庚', u'碓磨'), (u'丙辛', u'厨灶'), (u'丁壬', u'仓库'), (u'戊癸', u'房床')):
    for s in pair:
        FETUS_STEM[s] = w
# 子午二日碓须忌，丑未厕道莫修移，寅申火炉休要动，卯酉大门修当避，辰戌鸡栖巳亥床
FETUS_BRANCH = {}
for pair, w in ((u'子午', u'碓'), (u'丑未', u'厕'), (u'寅申', u'炉'), (u'卯酉', u'门'), (u'辰戌', u'栖'), (u'巳亥', u'床')):
    for b in pair:
        FETUS_BRANCH[b] = w
# 逐日胎神方位（六十甲子）：自己酉日起外东北6日、外正东5、外东南6、外正南5、外西南6、外正西5、外西北6、外正北5，
# 癸巳起房内北5、房内中2(戊戌己亥)、房内南3、房内西1(癸卯)、房内东4、房内中1(戊申)
FETUS_DAY_RUNS = [(u'己酉', [(u'外', u'东北', 6), (u'外', u'东', 5), (u'外', u'东南', 6), (u'外', u'南', 5), (u'外', u'西南', 6),
                            (u'外', u'西', 5), (u'外', u'西北', 6), (u'外', u'北', 5), (u'内', u'北', 5), (u'内', u'中', 2),
                            (u'内', u'南', 3), (u'内', u'西', 1), (u'内', u'东', 4), (u'内', u'中', 1)])]


def fetus_day_table():
    start, runs = FETUS_DAY_RUNS[0]
    i = [sixty(k) for k in range(60)].index(start)
    out = {}
    for side, d, n in runs:
        for _ in range(n):
            out[sixty(i % 60)] = (side, d)
            i += 1
    assert len(out) == 60
    return out


# 逐月胎神：正月占房床 二月占户窗 三月占门堂 四月占厨灶 五月占房床 六月占床仓 七月占碓磨 八月占厕户 九月占门房 十月占房床 十一月占灶炉 十二月占房床
FETUS_MONTH = [u'占房床', u'占户窗', u'占门堂', u'占厨灶', u'占房床', u'占床仓', u'占碓磨', u'占厕户', u'占门房', u'占房床', u'占灶炉', u'占房床']

# 二十八宿：东方青龙角亢氐房心尾箕 北方玄武斗牛女虚危室壁 西方白虎奎娄胃昴毕觜参 南方朱雀井鬼柳星张翼轸
MANSIONS = u'角亢氐房心尾箕斗牛女虚危室壁奎娄胃昴毕觜参井鬼柳星张翼轸'
MANSION_ZONE = [u'东'] * 7 + [u'北'] * 7 + [u'西'] * 7 + [u'南'] * 7
ZONE_BEAST = {u'东': u'青龙', u'北': u'玄武', u'西': u'白虎', u'南': u'朱雀'}
# 七曜：角木蛟 亢金龙 氐土貉 房日兔 心月狐 尾火虎 箕水豹，以下每七宿循环 木金土日月火水
MANSION_LUMINARY = [u'木金土日月火水'[i % 7] for i in range(28)]
MANSION_ANIMAL = u'蛟龙貉兔狐虎豹獬牛蝠鼠燕猪獝狼狗彘鸡乌猴猿犴羊獐马鹿蛇蚓'
# 九野：中央钧天角亢氐 东方苍天房心尾 东北变天箕斗牛 北方玄天女虚危室 西北幽天壁奎娄 西方颢天胃昴毕 西南朱天觜参井 南方炎天鬼柳星 东南阳天张翼轸
MANSION_LAND = {}
for land, ms in ((u'钧天', u'角亢氐'), (u'苍天', u'房心尾'), (u'变天', u'箕斗牛'), (u'玄天', u'女虚危室'), (u'幽天', u'壁奎娄'),
                 (u'颢天', u'胃昴毕'), (u'朱天', u'觜参井'), (u'炎天', u'鬼柳星'), (u'阳天', u'张翼轸')):
    for m_ in ms:
        MANSION_LAND[m_] = land
LAND_DIRECTION = {u'钧天': u'中', u'苍天': u'东', u'变天': u'东北', u'玄天': u'北', u'幽天': u'西北', u'颢天': u'西', u'朱天': u'西南', u'炎天': u'南', u'阳天': u'东南'}
# 二十八宿吉凶（通书）：角吉 亢凶 氐凶 房吉 心凶 尾吉 箕吉 斗吉 牛凶 女凶 虚凶 危凶 室吉 壁吉 奎凶 娄吉 胃吉 昴凶 毕吉 觜凶 参吉 井吉 鬼凶 柳凶 星凶 张吉 翼凶 轸吉
MANSION_LUCK = dict(zip(MANSIONS, u'吉凶凶吉凶吉吉吉凶凶凶凶吉吉凶吉吉凶吉凶吉吉凶凶凶吉凶吉'))

# 九星：一白水 二黑土 三碧木 四绿木 五黄土 六白金 七赤金 八白土 九紫火；洛书方位同数
NINE_STAR = [(u'一', u'白', u'水'), (u'二', u'黑', u'土'), (u'三', u'碧', u'木'), (u'四', u'绿', u'木'), (u'五', u'黄', u'土'),
             (u'六', u'白', u'金'), (u'七', u'赤', u'金'), (u'八', u'白', u'土'), (u'九', u'紫', u'火')]
DIPPER = [u'天枢', u'天璇', u'天玑', u'天权', u'玉衡', u'开阳', u'摇光', u'洞明', u'隐元']

# 黄道黑道十二神：青龙明堂金匮天德玉堂司命为黄道，天刑朱雀白虎天牢玄武勾陈为黑道
TWELVE_STAR = [u'青龙', u'明堂', u'天刑', u'朱雀', u'金匮', u'天德', u'白虎', u'玉堂', u'天牢', u'玄武', u'司命', u'勾陈']
YELLOW = set([u'青龙', u'明堂', u'金匮', u'天德', u'玉堂', u'司命'])

# 小六壬：大安(木,吉) 留连(水,凶) 速喜(火,吉) 赤口(金,凶) 小吉(木,吉) 空亡(土,凶)
MINOR_REN = [(u'大安', u'木', u'吉'), (u'留连', u'水', u'凶'), (u'速喜', u'火', u'吉'), (u'赤口', u'金', u'凶'), (u'小吉', u'木', u'吉'), (u'空亡', u'土', u'凶')]

# 五虎遁（年上起月）：甲己之年丙作首，乙庚之岁戊为头，丙辛必定寻庚起，丁壬壬位顺行流，戊癸何方发，甲寅之上好追求
FIVE_TIGERS = {}
for pair, s in ((u'甲己', u'丙'), (u'乙庚', u'戊'), (u'丙辛', u'庚'), (u'丁壬', u'壬'), (u'戊癸', u'甲')):
    for y in pair:
        FIVE_TIGERS[y] = s
# 五鼠遁（日上起时）：甲己还加甲，乙庚丙作初，丙辛从戊起，丁壬庚子居，戊癸何方发，壬子是真途
FIVE_RATS = {}
for pair, s in ((u'甲己', u'甲'), (u'乙庚', u'丙'), (u'丙辛', u'戊'), (u'丁壬', u'庚'), (u'戊癸', u'壬')):
    for d in pair:
        FIVE_RATS[d] = s
